package main

// C08: crash recovery. The process SIGKILLs itself at a named instant of block processing
// (hook H2); a new process is started on the same data directory and must reconcile.

import (
	"fmt"
	"os"
	"os/exec"
	"path/filepath"
	"strings"
)

var crashPoints = []string{
	"begin/enter", "begin/gov", "begin/stake", "begin/exit", "deliver/enter", "end/enter", "end/exit", "commit/enter",
	"commit/gov/params", "commit/gov/proposals", "commit/gov/frozen", "commit/account",
	"commit/stake/delegatees", "commit/stake/frozen", "commit/stake/rewards", "commit/stake/validators", "commit/stake/rwdhash",
	"commit/vm/statedb", "commit/vm/triedb", "commit/vm/root", "commit/ledgers-done", "commit/meta-ctx", "commit/meta-height",
}

func copyDir(src, dst string) error {
	_ = os.RemoveAll(dst)
	if err := os.MkdirAll(filepath.Dir(dst), 0o755); err != nil {
		return err
	}
	out, err := exec.Command("cp", "-a", src, dst).CombinedOutput()
	if err != nil {
		return fmt.Errorf("cp: %v: %s", err, out)
	}
	// stderr logs of earlier incarnations are not part of the data directory
	matches, _ := filepath.Glob(filepath.Join(dst, "stderr.*.log"))
	for _, m := range matches {
		_ = os.Remove(m)
	}
	return nil
}

func checkC08(c *Ctx) {
	c.Level = "fault_enumeration"
	c.rule = "fault enumeration: for chosen blocks h of generated histories (stake, governance and EVM activity) and every named crash point (entry/exit of BeginBlock, DeliverTx, EndBlock, and after each durable write of Commit: 3 governance ledgers, account ledger, 3 stake ledgers, validator record, reward-hash record, EVM state commit, trie commit, root record, last-block context, last-block height) the replica SIGKILLs itself at that instant while executing block h; a new process on the same directory must open, report (h-1,hash(h-1)) or (h,hash(h)), replay the interrupted block with the reference results and continue with the reference app hashes for two more blocks; a case is one (history, block, point) triple at which the process really died; distinct = distinct triples"
	c.assumptions = []string{"process death (SIGKILL), not power loss: data already handed to the kernel survives; missing fsyncs are not exercised"}
	nh := c.N(5, 8)
	c.Parallel(nh, 0, func(i int) {
		rng := c.Rng("c08", i)
		o := twinOpts(c, "C08", i)
		o.Blocks = 12
		long := i%4 == 0
		if long {
			// long enough for the second interval of the reward-hash record: what a node remembers about interval k-1
			// while it writes interval k only matters from block 20 on
			o.Blocks = 24
		}
		o.Gen.MaxTx = 8
		o.Gen.InvalidPct = 15
		o.Gen.W["proposal"], o.Gen.W["vote"], o.Gen.W["stake"], o.Gen.W["unstake"] = 10, 15, 20, 12
		if i%3 == 1 {
			// more candidates than validator slots: what is recorded about "the validators" is not simply "all delegatees"
			o.Params.MaxValidatorCnt = int64(1 + rng.Intn(2))
			o.Gen.NVal = int(o.Params.MaxValidatorCnt)
			o.Params.MinValidatorStake = e18(2).String()
			o.Gen.W["stake"], o.Gen.W["delegate"] = 45, 10
			o.Params.MaxIndividualStakeRatio, o.Params.MaxUpdatableStakeRatio = 100000, 100
		}
		hr := runHistory(c, i, c.Rng("hist-C08", i), o)
		hr.Report("C08")
		nb := len(hr.Results)
		if nb < 6 {
			c.Inconclusive("history too short")
			return
		}
		var hs []int64
		if c.Quick() {
			hs = []int64{int64(2 + rng.Intn(4)), 10} // block 10 hits the reward-hash record
			if i%2 == 1 {
				hs = append(hs, 1) // the first block: nothing but what InitChain wrote is durable yet, and the handshake delivers InitChain again
			}
			if long {
				hs = append(hs, 20, 21) // ... block 20 hits it for the second time; block 21 starts from a state committed at a multiple of the interval
			}
		} else {
			for h := int64(1); h <= int64(nb)-2; h++ {
				hs = append(hs, h)
			}
		}
		for _, h := range hs {
			if h > int64(nb)-2 {
				continue
			}
			// base directory: state after block h-1
			base := filepath.Join(c.DirI(i, fmt.Sprintf("c08-%d", i)), fmt.Sprintf("base-%d", h-1))
			r, _, err := openReplica(c, base, hr.G.G, SpawnOpt{}, true)
			if err != nil {
				c.Err(i, "base open", err)
				return
			}
			var appHash []byte
			ok := true
			for bi := 0; bi < int(h-1); bi++ {
				res, err := execBlock(r, hr.G.G.ChainID, hr.Blocks[bi], appHash)
				if err != nil {
					c.Err(i, "base replay", err)
					ok = false
					break
				}
				appHash = res.Commit.Data
			}
			if !ok {
				r.Close()
				return
			}
			if err := r.Stop(); err != nil {
				c.Err(i, "base stop", err)
				return
			}
			type trial struct {
				point string
				nth   int
			}
			var trials []trial
			for _, p := range crashPoints {
				nth := 1
				if p == "deliver/enter" && len(hr.Blocks[h-1].Txs) > 1 {
					nth = 1 + rng.Intn(len(hr.Blocks[h-1].Txs))
				}
				trials = append(trials, trial{p, nth})
			}
			c.ParallelInner(len(trials), 6, func(ti int) {
				t := trials[ti]
				c.crashTrial(i, hr, o, base, h, t.point, t.nth, appHash, !c.Quick() && ti%5 == 0)
			})
			_ = os.RemoveAll(base)
		}
		if i < 2 {
			c.Sample(map[string]interface{}{"history": o.Name, "crash_blocks": hs, "points": crashPoints, "txs_in_crash_blocks": len(hr.Blocks[hs[0]-1].Txs)})
		}
	})
	c.Require("crashes")
}

// crashTrial: copy base (state after h-1), arm the point, run block h until death, restart, reconcile.
func (c *Ctx) crashTrial(i int, hr *HistRun, o *HistOpts, base string, h int64, point string, nth int, hashPrev []byte, double bool) {
	dir := fmt.Sprintf("%s-trial-%s-%d", base, strings.ReplaceAll(point, "/", "_"), nth)
	if err := copyDir(base, dir); err != nil {
		c.Inconclusive("copy: " + err.Error())
		return
	}
	defer os.RemoveAll(dir)
	caseID := fmt.Sprintf("%s/h%d/%s#%d", o.Name, h, point, nth)
	r, info, err := openReplica(c, dir, hr.G.G, SpawnOpt{}, false)
	if err != nil {
		c.Err(i, "trial open", err)
		return
	}
	if h > 1 && info.LastBlockHeight != h-1 {
		c.Inconclusive(fmt.Sprintf("base at height %d, expected %d", info.LastBlockHeight, h-1))
		r.Close()
		return
	}
	if h == 1 {
		if _, err := r.InitChain(hr.G.G.InitChainReq()); err != nil {
			c.Err(i, "init", err)
			r.Close()
			return
		}
	}
	_ = r.SetTimes(hr.Times)
	if err := r.Arm(point, nth); err != nil {
		c.Err(i, "arm", err)
		r.Close()
		return
	}
	_, err = execBlock(r, hr.G.G.ChainID, hr.Blocks[h-1], hashPrev)
	r.Close()
	if err == nil {
		c.Count("point-not-reached", 1)
		return
	}
	de, isDead := err.(*ErrDead)
	if !isDead || !strings.Contains(de.Status, "killed") {
		c.Err(i, "crash run "+caseID, err)
		return
	}
	c.Count("crashes", 1)
	c.SetAdd("points-crashed-at", point)
	c.Eval(1)
	fail := func(kind, detail string) {
		c.Violation(i, fmt.Sprintf("crash@%s:%s", point, kind), fmt.Sprintf("%s: %s", caseID, detail),
			map[string]interface{}{"history": hr.replayDoc(), "crash_block": h, "crash_point": point, "nth": nth})
	}
	// ---- restart ------------------------------------------------------------------
	r2, info2, err := openReplica(c, dir, hr.G.G, SpawnOpt{}, false)
	if err != nil {
		if de, ok := err.(*ErrDead); ok {
			fail("open-fails:"+sigLine(de.Stderr), "the node does not start any more\n"+de.Stderr)
			return
		}
		c.Err(i, "restart", err)
		return
	}
	defer func() { r2.Close() }()
	_ = r2.SetTimes(hr.Times)
	refHash := func(hh int64) []byte {
		if hh <= 0 {
			return nil
		}
		return hr.Results[hh-1].Commit.Data
	}
	var next int64
	switch {
	case info2.LastBlockHeight == h && hx(info2.LastBlockAppHash) == hx(refHash(h)):
		next = h + 1
		c.Count("recovered-at-h", 1)
	case info2.LastBlockHeight == h-1 && (h-1 == 0 || hx(info2.LastBlockAppHash) == hx(refHash(h-1))):
		next = h
		c.Count("recovered-at-h-1", 1)
		if h == 1 {
			if _, err := r2.InitChain(hr.G.G.InitChainReq()); err != nil {
				c.Err(i, "re-init", err)
				return
			}
		}
	default:
		fail("info-unreconcilable", fmt.Sprintf("Info reports height %d hash %x; reference has (%d,%x) and (%d,%x)", info2.LastBlockHeight, info2.LastBlockAppHash, h-1, refHash(h-1), h, refHash(h)))
		return
	}
	appHash := refHash(next - 1)
	crashedAgain := false
	for hh := next; hh <= h+2 && hh <= int64(len(hr.Results)); hh++ {
		if double && hh == next && !crashedAgain {
			// double crash: die once more while replaying, at the same point
			crashedAgain = true
			_ = r2.Arm(point, nth)
			_, err := execBlock(r2, hr.G.G.ChainID, hr.Blocks[hh-1], appHash)
			if de, ok := err.(*ErrDead); ok && strings.Contains(de.Status, "killed") {
				c.Count("double-crashes", 1)
				r2.Close()
				r3, info3, err := openReplica(c, dir, hr.G.G, SpawnOpt{}, false)
				if err != nil {
					if de, ok := err.(*ErrDead); ok {
						fail("open-fails-after-second-crash:"+sigLine(de.Stderr), de.Stderr)
						return
					}
					c.Err(i, "restart2", err)
					return
				}
				r2 = r3
				_ = r2.SetTimes(hr.Times)
				if info3.LastBlockHeight == hh && hx(info3.LastBlockAppHash) == hx(refHash(hh)) {
					appHash = refHash(hh)
					continue
				}
				if info3.LastBlockHeight != hh-1 {
					fail("info-unreconcilable-after-second-crash", fmt.Sprintf("Info reports height %d", info3.LastBlockHeight))
					return
				}
				if hh == 1 {
					_, _ = r2.InitChain(hr.G.G.InitChainReq())
				}
			} else if err != nil {
				if de, ok := err.(*ErrDead); ok {
					fail("replay-dies:"+sigLine(de.Stderr), fmt.Sprintf("replaying block %d after the crash kills the node\n%s", hh, de.Stderr))
					return
				}
				c.Err(i, "replay", err)
				return
			} else {
				// the point was not reached again (e.g. already past it): the block completed
				appHash = refHash(hh)
				continue
			}
		}
		res, err := execBlock(r2, hr.G.G.ChainID, hr.Blocks[hh-1], appHash)
		if err != nil {
			if de, ok := err.(*ErrDead); ok {
				fail("replay-dies:"+sigLine(de.Stderr), fmt.Sprintf("executing block %d after the crash kills the node\n%s", hh, de.Stderr))
				return
			}
			c.Err(i, "replay", err)
			return
		}
		if a, b := hr.Results[hh-1].consensusView(), res.consensusView(); a != b {
			fail("diverges-after-recovery", fmt.Sprintf("block %d differs from the never-crashed reference (%s)\n--- reference\n%s--- recovered\n%s", hh, diffFirst(a, b), a, b))
			return
		}
		appHash = res.Commit.Data
	}
	c.Distinct(caseID)
	c.Count("recoveries-verified", 1)
}

// sigLine extracts a stable one-line signature from a panic message.
func sigLine(stderr string) string {
	l := firstLine(stderr)
	// strip volatile numbers (versions, heights)
	var sb strings.Builder
	for _, ch := range l {
		if ch >= '0' && ch <= '9' {
			sb.WriteByte('N')
		} else {
			sb.WriteRune(ch)
		}
	}
	s := sb.String()
	for strings.Contains(s, "NN") {
		s = strings.ReplaceAll(s, "NN", "N")
	}
	return s
}

func init() { checks["C08"] = checkC08 }
