package main

// C09: no externally supplied input crashes the node. Hostile CheckTx / DeliverTx payloads and
// queries are thrown at a replica (own OS process); the monitor is the process itself (exit
// status, panic text) plus a canary request after every batch.

import (
	"fmt"
	"math/big"
	"math/rand"
	"strings"

	"github.com/holiman/uint256"
	rctypes "github.com/rigochain/rigo-go/ctrlers/types"
	"google.golang.org/protobuf/proto"
)

type hostile struct {
	label string
	raw   []byte
}

func protoTx(p *rctypes.TrxProto) []byte {
	bz, err := proto.Marshal(p)
	if err != nil {
		panic(err)
	}
	return bz
}

// hostileTxs builds the catalogue for one batch.
func hostileTxs(rng *rand.Rand, hr *HistRun, st *MState, h int64, n int) []hostile {
	var out []hostile
	add := func(l string, raw []byte) { out = append(out, hostile{l, raw}) }
	g := hr.G
	P := st.Params
	price := bigDec(P.GasPrice)
	funded := g.funded(st, new(big.Int).Mul(big.NewInt(int64(P.MinTrxGas+100)), price))
	if len(funded) == 0 {
		funded = g.All
	}
	pickK := func() *Key { return funded[rng.Intn(len(funded))] }
	nonceOf := func(k *Key) uint64 {
		if a := st.Accounts[k.A()]; a != nil {
			return a.Nonce
		}
		return 0
	}
	valid := func() (*rctypes.Trx, *Key) {
		k := pickK()
		tx := mkTx(rctypes.TRX_TRANSFER, k.Addr, g.pick(g.All).Addr, nonceOf(k), P.MinTrxGas+5, u256big(price), u256(1), nil, h*1000+int64(rng.Intn(1000)))
		return tx, k
	}
	// pool of past valid encodings
	var pool [][]byte
	for _, txs := range hr.Txs {
		for _, t := range txs {
			pool = append(pool, t.Raw)
		}
	}
	for len(out) < n {
		switch rng.Intn(14) {
		case 0: // random bytes
			b := make([]byte, rng.Intn(4097))
			rng.Read(b)
			add("random-bytes", b)
		case 1: // short random
			b := make([]byte, rng.Intn(40))
			rng.Read(b)
			add("random-short", b)
		case 2: // truncated valid
			if len(pool) > 0 {
				p := pool[rng.Intn(len(pool))]
				add("truncated", append([]byte(nil), p[:rng.Intn(len(p)+1)]...))
			}
		case 3: // bit flips
			if len(pool) > 0 {
				p := append([]byte(nil), pool[rng.Intn(len(pool))]...)
				for k := 0; k < 1+rng.Intn(3); k++ {
					p[rng.Intn(len(p))] ^= 1 << uint(rng.Intn(8))
				}
				add("bitflip", p)
			}
		case 4: // length prefix enlarged / bytes inserted
			if len(pool) > 0 {
				p := append([]byte(nil), pool[rng.Intn(len(pool))]...)
				i := rng.Intn(len(p))
				p[i] = 0xff
				add("byte-to-ff", p)
			}
		case 5: // hostile address lengths (unsigned envelope)
			tx, k := valid()
			lens := []int{0, 1, 19, 21, 32, 33, 1000}
			pm := &rctypes.TrxProto{Version: 1, Time: tx.Time, Nonce: tx.Nonce, From: k.Addr, To: tx.To, XAmount: []byte{1}, Gas: tx.Gas, XGasPrice: price.Bytes(), Type: rctypes.TRX_TRANSFER, Sig: make([]byte, 65)}
			if rng.Intn(2) == 0 {
				pm.From = make([]byte, lens[rng.Intn(len(lens))])
			} else {
				pm.To = make([]byte, lens[rng.Intn(len(lens))])
			}
			add("addr-length", protoTx(pm))
		case 6: // hostile address lengths, properly signed
			tx, k := valid()
			lens := []int{0, 1, 19, 21, 32, 33, 1000}
			tx.To = make([]byte, lens[rng.Intn(len(lens))])
			add("signed-to-length", signTx(tx, k, g.G.ChainID))
		case 7: // extreme amounts / prices / gas, signed
			tx, k := valid()
			ext := []*uint256.Int{new(uint256.Int), new(uint256.Int).SetAllOne(), u256big(new(big.Int).Lsh(big.NewInt(1), 255)), u256big(new(big.Int).Sub(new(big.Int).Lsh(big.NewInt(1), 255), big.NewInt(1)))}
			switch rng.Intn(4) {
			case 0:
				tx.Amount = ext[rng.Intn(len(ext))]
			case 1:
				tx.GasPrice = ext[rng.Intn(len(ext))]
			case 2:
				tx.Gas = []uint64{0, 1 << 63, 1<<64 - 1, 1<<63 - 1}[rng.Intn(4)]
			default:
				tx.Type = []int32{0, -1, 9, 100, 1<<31 - 1, -1 << 31}[rng.Intn(6)]
			}
			add("extreme-field", signTx(tx, k, g.G.ChainID))
		case 8: // 33-byte amount encodings, oversized fields in the envelope
			tx, k := valid()
			pm := &rctypes.TrxProto{Version: 1, Time: tx.Time, Nonce: tx.Nonce, From: k.Addr, To: tx.To, XAmount: make([]byte, 33+rng.Intn(100)), Gas: tx.Gas, XGasPrice: make([]byte, 33), Type: int32(1 + rng.Intn(8)), Sig: make([]byte, rng.Intn(200))}
			rng.Read(pm.XAmount)
			rng.Read(pm.Sig)
			pm.XPayload = make([]byte, rng.Intn(300))
			rng.Read(pm.XPayload)
			add("oversized-envelope", protoTx(pm))
		case 9: // payload of one type under another type's tag, signed over whatever decodes
			if len(pool) > 0 {
				p := pool[rng.Intn(len(pool))]
				pm := &rctypes.TrxProto{}
				if proto.Unmarshal(p, pm) == nil {
					pm.Type = int32(1 + rng.Intn(8))
					add("type-payload-mismatch", protoTx(pm))
				}
			}
		case 10: // hostile payloads, signed
			tx, k := valid()
			tx.To = zeroAddr
			tx.Amount = new(uint256.Int)
			switch rng.Intn(6) {
			case 0:
				tx.Type = rctypes.TRX_UNSTAKING
				tx.To = g.pick(g.All).Addr
				tx.Payload = &rctypes.TrxPayloadUnstaking{TxHash: make([]byte, []int{0, 1, 31, 32, 32, 33, 64}[rng.Intn(7)])}
			case 1:
				tx.Type = rctypes.TRX_VOTING
				tx.Payload = &rctypes.TrxPayloadVoting{TxHash: make([]byte, []int{0, 1, 31, 33, 64}[rng.Intn(5)]), Choice: []int32{-1, 0, 1 << 30, -1 << 31}[rng.Intn(4)]}
			case 2:
				tx.Type = rctypes.TRX_PROPOSAL
				hs := []int64{0, -1, 1, h, h + 1, 1<<63 - 1, -1 << 63}
				opts := [][][]byte{nil, {}, {nil}, {[]byte("")}, {[]byte("{}")}, {[]byte(`{"slashRatio":"77","gasPrice":""}`)}, {[]byte(`[1,2]`)}, {[]byte(`{"maxValidatorCnt":"x"}`)}, {make([]byte, 100000)}}
				tx.Payload = &rctypes.TrxPayloadProposal{Message: strings.Repeat("m", rng.Intn(5000)), StartVotingHeight: hs[rng.Intn(len(hs))],
					VotingPeriodBlocks: hs[rng.Intn(len(hs))], ApplyingHeight: hs[rng.Intn(len(hs))], OptType: []int32{0, optGovParams, 0x0200, -1}[rng.Intn(4)], Options: opts[rng.Intn(len(opts))]}
				// a validator as sender reaches the deeper checks
				for _, v := range hr.M.lastValidators(h) {
					if kk := g.Keys[v.Addr]; kk != nil {
						k = kk
						tx.From = kk.Addr
						tx.Nonce = nonceOf(kk)
					}
				}
			case 3:
				tx.Type = rctypes.TRX_WITHDRAW
				tx.Payload = &rctypes.TrxPayloadWithdraw{ReqAmt: new(uint256.Int).SetAllOne()}
			case 4:
				tx.Type = rctypes.TRX_CONTRACT
				d := make([]byte, []int{0, 1, 31, 32, 63, 64, 65, 96, 127, 128, 129, 300, 1 << 20}[rng.Intn(13)])
				rng.Read(d)
				tx.Gas = 500000
				tx.Payload = &rctypes.TrxPayloadContract{Data: d}
				if rng.Intn(2) == 0 {
					// straight at a precompiled contract (addresses 1..9), any input length
					to := make([]byte, 20)
					to[19] = byte(1 + rng.Intn(9))
					tx.To = to
					if len(d) > 400 {
						tx.Payload = &rctypes.TrxPayloadContract{Data: d[:rng.Intn(200)]}
					}
				}
			default:
				tx.Type = rctypes.TRX_SETDOC
				tx.Payload = &rctypes.TrxPayloadSetDoc{Name: strings.Repeat("n", rng.Intn(5000)), URL: strings.Repeat("u", rng.Intn(5000))}
			}
			add("hostile-payload:"+typeName(tx.Type), signTx(tx, k, g.G.ChainID))
		case 11: // missing payload for a type that needs one (envelope level)
			tx, k := valid()
			pm := &rctypes.TrxProto{Version: 1, Time: tx.Time, Nonce: tx.Nonce, From: k.Addr, To: zeroAddr, XAmount: nil, Gas: tx.Gas, XGasPrice: price.Bytes(), Type: int32(3 + rng.Intn(6)), Sig: make([]byte, 65)}
			add("missing-payload", protoTx(pm))
		case 12: // unknown sender / sender with no account, valid otherwise
			k := g.pick(g.Fresh)
			tx := mkTx(rctypes.TRX_TRANSFER, k.Addr, g.pick(g.All).Addr, 0, P.MinTrxGas+5, u256big(price), u256(0), nil, h)
			add("unknown-sender", signTx(tx, k, g.G.ChainID))
		default: // signature oddities
			tx, k := valid()
			raw := signTx(tx, k, g.G.ChainID)
			t2 := &rctypes.Trx{}
			if t2.Decode(raw) == nil {
				switch rng.Intn(4) {
				case 0:
					t2.Sig = nil
				case 1:
					t2.Sig = t2.Sig[:64]
				case 2:
					t2.Sig = append(t2.Sig, 1, 2, 3)
				default:
					t2.Sig[64] = byte(rng.Intn(256))
				}
				bz, _ := t2.Encode()
				add("odd-signature", bz)
			}
		}
	}
	return out
}

type hostileQuery struct {
	path   string
	data   []byte
	height int64
}

func hostileQueries(rng *rand.Rand, hr *HistRun, latest int64, n int) []hostileQuery {
	paths := []string{"account", "stakes", "stakes/total_power", "stakes/voting_power", "delegatee", "reward", "proposal", "gov_params", "vm_call", "", "nope", "account/", "vm_call/x"}
	lens := []int{0, 1, 19, 20, 31, 32, 33, 39, 40, 41, 100, 5000}
	heights := []int64{-1, 0, 1, latest, latest + 1, latest - 1, 1 << 62, -1 << 62}
	var out []hostileQuery
	for len(out) < n {
		p := paths[rng.Intn(len(paths))]
		d := make([]byte, lens[rng.Intn(len(lens))])
		switch rng.Intn(3) {
		case 0:
			rng.Read(d)
		case 1: // real keys
			k := hr.G.pick(hr.G.All)
			copy(d, k.Addr)
			if p == "vm_call" && len(d) >= 40 && len(hr.G.Contracts) > 0 {
				copy(d[20:], addrBytes(hr.G.Contracts[rng.Intn(len(hr.G.Contracts))].Addr))
			}
		}
		out = append(out, hostileQuery{p, d, heights[rng.Intn(len(heights))]})
	}
	return out
}

func checkC09(c *Ctx) {
	c.rule = "hostile inputs against a live replica process holding a non-trivial state (stakes, proposals, contracts): random bytes, truncated / bit-flipped valid encodings, signed and unsigned envelopes with hostile field values (address lengths 0..1000, amounts/prices at 0, 2^255+-1, 2^256-1, 33-byte encodings, gas 0/2^63/2^64-1, unknown and negative types, payload/type mismatches, hostile payloads per type, unknown senders, odd signatures) on CheckTx and inside blocks on DeliverTx; queries over every path x data length {0,1,19,20,31,32,33,39,40,41,100,5000} x height {-1,0,1,latest-1,latest,latest+1,+-2^62}; delayed effects: accepted hostile proposals are voted in and run to their applying height. One third of the replicas run the -race build (a race report is a violation), one third the AddressSanitizer build (Go code and the cgo secp256k1 library instrumented; a report kills the process and is reported as a node death). Oracle: the process stays alive, every call returns, a canary (known account query + a valid transfer) still works after every batch. distinct = distinct (input class, response code) pairs"
	c.assumptions = append(c.assumptions, "application calls never overlap in the node: consensus, mempool and query connections share the one mutex of rigoLocalClient; concurrency is exercised as contention for that mutex, races that need two overlapping application calls are outside what the node can do (DESIGN 12.4)")
	n := c.N(12, 80)
	c.Parallel(n, 0, func(i int) {
		rng := c.Rng("c09", i)
		o := twinOpts(c, "C09", i)
		o.Blocks = 12
		o.Gen.NVal = 2 + rng.Intn(3)
		if int64(o.Gen.NVal) > o.Params.MaxValidatorCnt {
			o.Params.MaxValidatorCnt = int64(o.Gen.NVal)
		}
		o.Gen.Evidence, o.Gen.Absent = 0, 0
		hr := runHistory(c, i, c.Rng("hist-C09", i), o)
		hr.Report("C09")
		if len(hr.Results) < o.Blocks {
			return
		}
		race := i%3 == 0
		asan := i%3 == 1 && selfBinAsan != ""
		c.fuzzReplica(i, hr, o, rng, race, asan)
		if i < 2 {
			c.Sample(map[string]interface{}{"history": o.Name, "race_binary": race, "asan_binary": asan})
		}
	})
	c.delayedProposalCrashes()
	c.Require("hostile.checktx", "hostile.delivertx", "hostile.query", "canaries-ok")
}

func (c *Ctx) fuzzReplica(i int, hr *HistRun, o *HistOpts, rng *rand.Rand, race, asan bool) {
	open := func() *Replica {
		r, _, err := openReplica(c, hr.Dir, hr.G.G, SpawnOpt{Race: race, Asan: asan, Env: []string{"GORACE=halt_on_error=0", "ASAN_OPTIONS=detect_leaks=0:abort_on_error=1"}}, false)
		if err != nil {
			c.Err(i, "reopen", err)
			return nil
		}
		_ = r.SetTimes(hr.Times)
		return r
	}
	r := open()
	if r == nil {
		return
	}
	defer func() { r.Close() }()
	h := int64(len(hr.Results))
	appHash := hr.AppHash
	st := hr.M.Hist[h]
	batches := c.N(6, 30)
	perBatch := c.N(120, 300)
	died := func(kind, label string, input []byte, err error) bool {
		de, ok := err.(*ErrDead)
		if !ok {
			c.Err(i, kind, err)
			return true
		}
		in := hx(input)
		if len(in) > 600 {
			in = in[:600] + "…"
		}
		c.Violation(i, fmt.Sprintf("node-dies:%s:%s", kind, sigLine(de.Stderr)), fmt.Sprintf("history %s, %s input class %q kills the node\ninput=%s\n%s", o.Name, kind, label, in, de.Stderr),
			map[string]interface{}{"history": hr.replayDoc(), "kind": kind, "class": label, "input_hex": hx(input)})
		return true
	}
	canaryKey := hr.G.G.Holders[len(hr.G.G.Holders)-1].Key
	for b := 0; b < batches; b++ {
		// ---- CheckTx and queries between blocks ---------------------------------------
		hts := hostileTxs(rng, hr, st, h+1, perBatch)
		for _, ht := range hts {
			res, err := r.CheckTx(ht.raw)
			if err != nil {
				if died("checktx", ht.label, ht.raw, err) {
					if r = open(); r == nil {
						return
					}
				}
				continue
			}
			c.Count("hostile.checktx", 1)
			c.Distinct(fmt.Sprintf("checktx/%s/%d", ht.label, res.Code))
		}
		for _, q := range hostileQueries(rng, hr, h, perBatch) {
			res, err := r.Query(q.path, q.data, q.height)
			if err != nil {
				if died("query", fmt.Sprintf("%s len=%d height=%d", q.path, len(q.data), q.height), q.data, err) {
					if r = open(); r == nil {
						return
					}
				}
				continue
			}
			c.Count("hostile.query", 1)
			c.Distinct(fmt.Sprintf("query/%s/len%d/%d", q.path, len(q.data), res.Code))
		}
		// ---- a block full of hostile transactions ---------------------------------------
		h++
		hr.Times[h] = hr.Times[h-1] + 3
		_ = r.SetTimes(hr.Times)
		blk := &BlockSpec{Height: h, Time: hr.Times[h], Proposer: hr.G.G.Validators[0].Key.Addr}
		if _, err := r.BeginBlock(blk.BeginReq(hr.G.G.ChainID, appHash)); err != nil {
			died("beginblock", "plain block", nil, err)
			return
		}
		redo := false
		for _, ht := range hts {
			res, err := r.DeliverTx(ht.raw)
			if err != nil {
				if died("delivertx", ht.label, ht.raw, err) {
					redo = true
					break
				}
				continue
			}
			c.Count("hostile.delivertx", 1)
			c.Distinct(fmt.Sprintf("delivertx/%s/%d", ht.label, res.Code))
		}
		if redo {
			// the node died inside the block: restart and go on with the next batch at the same height
			if r = open(); r == nil {
				return
			}
			h--
			continue
		}
		// canary: a valid transfer in the same block
		cn := uint64(0)
		if qr, err := r.Query("account", canaryKey.Addr, 0); err == nil && qr.Code == 0 {
			cn = jsonNonce(qr.Value)
		}
		ctx := mkTx(rctypes.TRX_TRANSFER, canaryKey.Addr, hr.G.G.Holders[0].Key.Addr, cn, st.Params.MinTrxGas, u256big(bigDec(st.Params.GasPrice)), u256(1), nil, h)
		// the hostile batch may contain valid transfers of the canary key: tolerate a nonce gap once
		cres, err := r.DeliverTx(signTx(ctx, canaryKey, hr.G.G.ChainID))
		if err != nil {
			died("delivertx", "canary", nil, err)
			return
		}
		if _, err := r.EndBlock(h); err != nil {
			died("endblock", "after hostile batch", nil, err)
			return
		}
		cm, err := r.Commit()
		if err != nil {
			died("commit", "after hostile batch", nil, err)
			return
		}
		appHash = cm.Data
		qr, err := r.Query("account", canaryKey.Addr, 0)
		if err != nil {
			died("query", "canary", nil, err)
			return
		}
		if qr.Code != 0 || qr.Height != h {
			c.Violation(i, "canary-query-fails", fmt.Sprintf("after the hostile batch the account query answers code=%d height=%d log=%q", qr.Code, qr.Height, qr.Log), nil)
			return
		}
		if cres.Code == 0 {
			c.Count("canaries-ok", 1)
		} else {
			c.Count("canary-transfer-rejected", 1)
			c.Note(fmt.Sprintf("canary transfer rejected with code %d: %s", cres.Code, firstLine(cres.Log)))
		}
		// refresh the view of the state
		if d, err := r.DumpAt(h, nil); err == nil {
			st = fromDump(d)
			hr.M.Hist[h] = st
		}
		c.Eval(perBatch * 3)
	}
	if race {
		_ = r.Stop()
		if n := strings.Count(r.StderrAll(), "WARNING: DATA RACE"); n > 0 {
			c.Violation(i, "data-race-under-hostile-input", r.StderrAll(), nil)
		}
		c.Count("race-binary-runs", 1)
	}
	if asan {
		// an AddressSanitizer report is process-fatal: it would have been reported above as a node death
		c.Count("asan-binary-runs", 1)
	}
}

func jsonNonce(v []byte) uint64 {
	s := string(v)
	k := strings.Index(s, `"nonce":"`)
	if k < 0 {
		return 0
	}
	s = s[k+9:]
	e := strings.IndexByte(s, '"')
	if e < 0 {
		return 0
	}
	var n uint64
	fmt.Sscan(s[:e], &n)
	return n
}

// delayedProposalCrashes: hostile-but-accepted governance options are voted in and run to their
// applying height; the node must survive BeginBlock/EndBlock/Commit of every later block.
func (c *Ctx) delayedProposalCrashes() {
	type dcase struct {
		optType int32
		options [][]byte
	}
	var dcases []dcase
	for _, ot := range []int32{0x0200, 0, 0x0100, -1, 0x0201} {
		dcases = append(dcases, dcase{ot, nil}, dcase{ot, [][]byte{}}, dcase{ot, [][]byte{nil}}, dcase{ot, [][]byte{[]byte("free text")}})
	}
	options := []string{
		`{"slashRatio":"77","gasPrice":""}`,
		`{"gasPrice":""}`,
		`{"minValidatorStake":"","slashRatio":"20"}`,
		`{"rewardPerPower":""}`,
		`{"slashRatio":"20","minDelegatorStake":""}`,
		`{}`,
		`{"unknownField":"1"}`,
		`{"slashRatio":"20"} `,
	}
	for _, o := range options {
		dcases = append(dcases, dcase{optGovParams, [][]byte{[]byte(o)}})
	}
	c.Parallel(len(dcases), 0, func(k int) {
		i := 1000 + k
		dc := dcases[k]
		opt := fmt.Sprintf("optType=%#x options=%q", dc.optType, dc.options)
		o := basePreset()
		o.Name = fmt.Sprintf("C09-delayed%d", k)
		o.Params = baseParams()
		o.Params.MinVotingPeriodBlocks, o.Params.MaxVotingPeriodBlocks, o.Params.LazyApplyingBlocks = 1, 3, 1
		o.Gen.NVal, o.Gen.NHolders, o.Gen.NFresh = 3, 2, 2
		o.Gen.MaxTx = 0
		o.Gen.Evidence, o.Gen.Absent, o.Gen.NoProposer, o.Gen.OddPropose = 0, 0, 0, 0
		o.Blocks = 14
		var propHash []byte
		accepted := false
		o.Script = func(hr *HistRun, h int64, b *BlockSpec, txs []*TxInfo) (*BlockSpec, []*TxInfo) {
			g := hr.G
			pre := hr.M.Hist[h-1]
			price := bigDec(pre.Params.GasPrice)
			mkv := func(k *Key, typ int32, pl rctypes.ITrxPayload, label string) *TxInfo {
				n := uint64(0)
				if a := pre.Accounts[k.A()]; a != nil {
					n = a.Nonce
				}
				tx := mkTx(typ, k.Addr, zeroAddr, n, pre.Params.MinTrxGas, u256big(price), new(uint256.Int), pl, h)
				raw := signTx(tx, k, g.G.ChainID)
				return &TxInfo{Tx: tx, Raw: raw, Hash: hx(sha256sum(raw)), Label: label, Pub: k.Pub, SigOK: true, Intend: true}
			}
			switch h {
			case 3:
				ti := mkv(g.G.Validators[0].Key, rctypes.TRX_PROPOSAL, &rctypes.TrxPayloadProposal{Message: "hostile", StartVotingHeight: 4, VotingPeriodBlocks: 1,
					ApplyingHeight: 7, OptType: dc.optType, Options: dc.options}, "hostile-proposal")
				propHash = addrBytes(ti.Hash)
				txs = append(txs, ti)
				b.Txs = append(b.Txs, ti.Raw)
			case 4:
				if len(hr.Results) >= 3 && len(hr.Results[2].Txs) > 0 && hr.Results[2].Txs[len(hr.Results[2].Txs)-1].Code == 0 {
					accepted = true
					for _, v := range g.G.Validators {
						ti := mkv(v.Key, rctypes.TRX_VOTING, &rctypes.TrxPayloadVoting{TxHash: propHash, Choice: 0}, "vote-for-hostile")
						txs = append(txs, ti)
						b.Txs = append(b.Txs, ti.Raw)
					}
				}
			}
			return b, txs
		}
		hr := runHistory(c, i, c.Rng("c09-delayed", k), o)
		c.Eval(1)
		if accepted {
			c.Count("hostile-proposals-accepted", 1)
			c.Distinct("delayed/" + opt)
		} else {
			c.Count("hostile-proposals-rejected-at-submission", 1)
		}
		if hr.Died != nil {
			c.Violation(i, "accepted-proposal-kills-node:"+sigLine(hr.Died.Stderr), fmt.Sprintf("option %s was accepted, voted in and kills every node when it is applied\n%s", opt, hr.Died.Error()), hr.replayDoc())
		}
	})
}

func init() { checks["C09"] = checkC09 }
