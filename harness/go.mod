module rigoverif

go 1.21

require (
	github.com/anishathalye/porcupine v1.3.0
	github.com/ethereum/go-ethereum v1.10.23
	github.com/gogo/protobuf v1.3.2
	github.com/holiman/uint256 v1.2.2
	github.com/rigochain/rigo-go v0.0.0
	github.com/tendermint/tendermint v0.34.24
	golang.org/x/crypto v0.1.0
	google.golang.org/protobuf v1.28.2-0.20220831092852-f930b1dc76e8
)

require (
	github.com/VictoriaMetrics/fastcache v1.6.0 // indirect
	github.com/Workiva/go-datastructures v1.0.53 // indirect
	github.com/beorn7/perks v1.0.1 // indirect
	github.com/btcsuite/btcd v0.22.1 // indirect
	github.com/cespare/xxhash/v2 v2.1.2 // indirect
	github.com/confio/ics23/go v0.7.0 // indirect
	github.com/cosmos/iavl v0.19.1 // indirect
	github.com/creachadair/taskgroup v0.3.2 // indirect
	github.com/deckarep/golang-set v1.8.0 // indirect
	github.com/fsnotify/fsnotify v1.5.4 // indirect
	github.com/go-kit/kit v0.12.0 // indirect
	github.com/go-kit/log v0.2.1 // indirect
	github.com/go-logfmt/logfmt v0.5.1 // indirect
	github.com/go-stack/stack v1.8.0 // indirect
	github.com/golang/protobuf v1.5.2 // indirect
	github.com/golang/snappy v0.0.4 // indirect
	github.com/google/btree v1.0.0 // indirect
	github.com/google/orderedcode v0.0.1 // indirect
	github.com/gorilla/websocket v1.5.0 // indirect
	github.com/grpc-ecosystem/go-grpc-middleware v1.3.0 // indirect
	github.com/gtank/merlin v0.1.1 // indirect
	github.com/hashicorp/golang-lru v0.5.5-0.20210104140557-80c98217689d // indirect
	github.com/hashicorp/hcl v1.0.0 // indirect
	github.com/holiman/bloomfilter/v2 v2.0.3 // indirect
	github.com/lib/pq v1.10.6 // indirect
	github.com/libp2p/go-buffer-pool v0.1.0 // indirect
	github.com/magiconair/properties v1.8.6 // indirect
	github.com/mattn/go-runewidth v0.0.9 // indirect
	github.com/matttproud/golang_protobuf_extensions v1.0.2-0.20181231171920-c182affec369 // indirect
	github.com/mimoo/StrobeGo v0.0.0-20210601165009-122bf33a46e0 // indirect
	github.com/minio/highwayhash v1.0.2 // indirect
	github.com/mitchellh/mapstructure v1.5.0 // indirect
	github.com/olekukonko/tablewriter v0.0.5 // indirect
	github.com/pelletier/go-toml/v2 v2.0.5 // indirect
	github.com/pkg/errors v0.9.1 // indirect
	github.com/prometheus/client_golang v1.12.2 // indirect
	github.com/prometheus/client_model v0.2.0 // indirect
	github.com/prometheus/common v0.32.1 // indirect
	github.com/prometheus/procfs v0.8.0 // indirect
	github.com/prometheus/tsdb v0.7.1 // indirect
	github.com/rcrowley/go-metrics v0.0.0-20201227073835-cf1acfcdf475 // indirect
	github.com/rs/cors v1.8.2 // indirect
	github.com/shirou/gopsutil v3.21.4-0.20210419000835-c7a38de76ee5+incompatible // indirect
	github.com/sirupsen/logrus v1.9.0 // indirect
	github.com/spf13/afero v1.8.2 // indirect
	github.com/spf13/cast v1.5.0 // indirect
	github.com/spf13/cobra v1.6.0 // indirect
	github.com/spf13/jwalterweatherman v1.1.0 // indirect
	github.com/spf13/pflag v1.0.5 // indirect
	github.com/spf13/viper v1.13.0 // indirect
	github.com/subosito/gotenv v1.4.1 // indirect
	github.com/syndtr/goleveldb v1.0.1-0.20210819022825-2ae1ddf74ef7 // indirect
	github.com/tendermint/tm-db v0.6.7 // indirect
	github.com/tklauser/go-sysconf v0.3.5 // indirect
	github.com/tklauser/numcpus v0.2.2 // indirect
	golang.org/x/net v0.1.0 // indirect
	golang.org/x/sys v0.1.0 // indirect
	golang.org/x/term v0.1.0 // indirect
	golang.org/x/text v0.4.0 // indirect
	google.golang.org/genproto v0.0.0-20221014213838-99cd37c6964a // indirect
	google.golang.org/grpc v1.50.1 // indirect
	gopkg.in/ini.v1 v1.67.0 // indirect
	gopkg.in/yaml.v3 v3.0.1 // indirect
)

replace github.com/rigochain/rigo-go => /repo
