package main

// C20, node path: the signer that node.NewRigoNode hands to the consensus engine keeps its last-signed
// record across a process kill (a child per incarnation; nothing is started, no ports are opened).

import (
	"bufio"
	"bytes"
	"encoding/hex"
	"fmt"
	"math/rand"
	"os"
	"os/exec"
	"path/filepath"
	"strconv"
	"strings"
	"time"

	"github.com/rigochain/rigo-go/cmd/commands"
	cfg "github.com/rigochain/rigo-go/cmd/config"
	"github.com/rigochain/rigo-go/node"
	tmcfg "github.com/tendermint/tendermint/config"
	tmlog "github.com/tendermint/tendermint/libs/log"
	tmproto "github.com/tendermint/tendermint/proto/tendermint/types"
	tmtypes "github.com/tendermint/tendermint/types"
)

const c20NodeChain = "c20-node-chain"

var c20NodePass = []byte("c20-pass")

func c20NodeConfig(root string) *cfg.Config {
	config := cfg.DefaultConfig()
	config.SetRoot(root)
	tmcfg.EnsureRoot(root)
	config.P2P.ListenAddress = "tcp://127.0.0.1:0"
	config.RPC.ListenAddress = "tcp://127.0.0.1:0"
	config.RPC.PprofListenAddress = ""
	config.Instrumentation.Prometheus = false
	return config
}

func c20Vote(h int64, step int, bid int, ts time.Time, addr []byte) *tmproto.Vote {
	typ := tmproto.PrevoteType
	if step == 3 {
		typ = tmproto.PrecommitType
	}
	return &tmproto.Vote{Type: typ, Height: h, Round: 0, BlockID: blockIDFor(bid), Timestamp: ts, ValidatorAddress: addr}
}

func c20TS(h int64) time.Time { return time.Unix(1700000000+h, 987654321).UTC() }

// rv signer-node <root> stream <from-height> <n>   |   rv signer-node <root> probe <height> <step>
func signerNodeChildMain(args []string) {
	root, mode := args[0], args[1]
	config := c20NodeConfig(root)
	if _, err := os.Stat(config.GenesisFile()); err != nil {
		if err := commands.InitFilesWith(c20NodeChain, config, 1, c20NodePass); err != nil {
			fmt.Println("ERR init", err)
			os.Exit(1)
		}
	}
	n, err := node.NewRigoNode(config, c20NodePass, tmlog.NewNopLogger())
	if err != nil {
		fmt.Println("ERR node", err)
		os.Exit(1)
	}
	pv := n.PrivValidator()
	pub, err := pv.GetPubKey()
	if err != nil {
		fmt.Println("ERR pubkey", err)
		os.Exit(1)
	}
	w := bufio.NewWriter(os.Stdout)
	defer w.Flush()
	fmt.Fprintf(w, "PUB %x\n", pub.Bytes())
	w.Flush()
	switch mode {
	case "stream":
		h, _ := strconv.ParseInt(args[2], 10, 64)
		cnt, _ := strconv.Atoi(args[3])
		for k := 0; k < cnt; k++ {
			for step := 2; step <= 3; step++ {
				v := c20Vote(h, step, 1, c20TS(h), pub.Address())
				sb := tmtypes.VoteSignBytes(c20NodeChain, v)
				if err := pv.SignVote(c20NodeChain, v); err != nil {
					fmt.Fprintf(w, "ERR %v\n", err)
					w.Flush()
					os.Exit(1)
				}
				fmt.Fprintf(w, "REL %d %d %d %x %x\n", h, 0, step, sb, v.Signature)
				w.Flush()
			}
			h++
		}
	case "probe":
		h, _ := strconv.ParseInt(args[2], 10, 64)
		step, _ := strconv.Atoi(args[3])
		out := func(tag string, v *tmproto.Vote) {
			if err := pv.SignVote(c20NodeChain, v); err != nil {
				fmt.Fprintf(w, "%s ERR %q\n", tag, err.Error())
			} else {
				fmt.Fprintf(w, "%s OK %x %d %x\n", tag, v.Signature, v.Timestamp.UnixNano(), tmtypes.VoteSignBytes(c20NodeChain, v))
			}
			w.Flush()
		}
		// order matters: the refusals first, so that a signer that forgot its record shows itself before it is overwritten
		out("CONFLICT", c20Vote(h, step, 5, c20TS(h), pub.Address()))
		out("REGRESS", c20Vote(h-1, 3, 1, c20TS(h-1), pub.Address()))
		out("REPLAY", c20Vote(h, step, 1, c20TS(h), pub.Address()))
		out("TSVARIANT", c20Vote(h, step, 1, c20TS(h).Add(4321*time.Nanosecond), pub.Address()))
	}
}

func (c *Ctx) signerNodeKill(i int, rng *rand.Rand) {
	root := c.Dir(fmt.Sprintf("c20n-%d", i))
	defer os.RemoveAll(root)
	run := func(args ...string) (*exec.Cmd, *bufio.Scanner, error) {
		cmd := exec.Command(selfBin, append([]string{"signer-node", root}, args...)...)
		cmd.Stderr = nil
		out, err := cmd.StdoutPipe()
		if err != nil {
			return nil, nil, err
		}
		if err := cmd.Start(); err != nil {
			return nil, nil, err
		}
		sc := bufio.NewScanner(out)
		sc.Buffer(make([]byte, 1<<20), 1<<20)
		return cmd, sc, nil
	}
	startH := int64(5 + rng.Intn(50))
	cmd, sc, err := run("stream", fmt.Sprint(startH), "100000")
	if err != nil {
		c.Inconclusive(err.Error())
		return
	}
	target := 1 + rng.Intn(12)
	spin := rng.Intn(20000)
	var last *release
	var pubHex string
	seen := 0
	for sc.Scan() {
		f := strings.Fields(sc.Text())
		if len(f) == 2 && f[0] == "PUB" {
			pubHex = f[1]
			continue
		}
		if len(f) > 0 && f[0] == "ERR" {
			break
		}
		if len(f) != 6 || f[0] != "REL" {
			continue // log lines of the initialisation
		}
		h, _ := strconv.ParseInt(f[1], 10, 64)
		st, _ := strconv.Atoi(f[3])
		sb, _ := hex.DecodeString(f[4])
		sg, _ := hex.DecodeString(f[5])
		last = &release{H: h, R: 0, S: int8(st), SignBytes: sb, Sig: sg}
		seen++
		if seen >= target {
			for k := 0; k < spin; k++ {
				_ = k * k
			}
			break
		}
	}
	_ = cmd.Process.Kill()
	_ = cmd.Wait()
	c.Eval(1)
	if last == nil || pubHex == "" {
		c.Inconclusive("node-path signer child produced no release")
		return
	}
	c.Count("node-path-kills", 1)
	config := c20NodeConfig(root)
	onDisk, ferr := readStateFile(config.PrivValidatorStateFile())
	if ferr != nil {
		c.Violation(i, "signer:state-file-corrupt-after-kill", ferr.Error(), nil)
		return
	}
	if hrsLess(onDisk, last) {
		c.Violation(i, "signer:state-behind-released-signature", fmt.Sprintf("node path: after the kill the state file is at %d/%d/%d but a signature for %d/%d/%d had been released", onDisk.H, onDisk.R, onDisk.S, last.H, last.R, last.S), nil)
		return
	}
	// second incarnation of the node on the same home directory
	cmd2, sc2, err := run("probe", fmt.Sprint(onDisk.H), fmt.Sprint(onDisk.S))
	if err != nil {
		c.Inconclusive(err.Error())
		return
	}
	got := map[string][]string{}
	for sc2.Scan() {
		f := strings.Fields(sc2.Text())
		if len(f) >= 2 {
			got[f[0]] = f[1:]
		}
	}
	_ = cmd2.Wait()
	for _, k := range []string{"CONFLICT", "REGRESS", "REPLAY", "TSVARIANT"} {
		if got[k] == nil {
			c.Inconclusive("node-path probe gave no answer for " + k)
			return
		}
	}
	if p := got["PUB"]; p == nil || p[0] != pubHex {
		c.Inconclusive("node-path probe runs with another key")
		return
	}
	where := fmt.Sprintf("node restarted on the same home directory after a kill at %d/0/%d", onDisk.H, onDisk.S)
	if got["CONFLICT"][0] == "OK" {
		c.Violation(i, "signer:double-sign-after-kill", where+": a conflicting vote at the last signed height/round/step was signed", nil)
		return
	}
	if got["REGRESS"][0] == "OK" {
		c.Violation(i, "signer:signed-lower-hrs", where+": a vote for a lower height was signed", nil)
		return
	}
	for _, k := range []string{"REPLAY", "TSVARIANT"} {
		g := got[k]
		if g[0] != "OK" {
			c.Violation(i, "signer:replay-refused-after-kill", where+": "+k+" refused: "+strings.Join(g, " "), nil)
			return
		}
		sg, _ := hex.DecodeString(g[1])
		ns, _ := strconv.ParseInt(g[2], 10, 64)
		if !bytes.Equal(sg, onDisk.Sig) || ns != c20TS(onDisk.H).UnixNano() {
			c.Violation(i, "signer:replay-resigned-after-kill", fmt.Sprintf("%s: %s came back with another signature or timestamp (%d vs %d)", where, k, ns, c20TS(onDisk.H).UnixNano()), nil)
			return
		}
	}
	c.Distinct(fmt.Sprintf("nodekill/%d/%d", i, seen))
	c.Count("node-path-recoveries-verified", 1)
}

var _ = filepath.Join
