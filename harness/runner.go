package main

// Model-monitored history runner: drives one replica through a generated history and
// compares every committed state with the one-step model.

import (
	"bytes"
	"fmt"
	"math/big"
	"math/rand"
	"os"
	"sort"
	"strings"

	rctypes "github.com/rigochain/rigo-go/ctrlers/types"
	abci "github.com/tendermint/tendermint/abci/types"
)

type HistOpts struct {
	Name   string
	Blocks int
	Gen    GenOpts
	Params DParams
	UseRef bool
	Race   bool
	// RestartPermille: probability (per mille) of stopping and restarting the replica process after a commit.
	RestartPermille int
	// Mempool: like a real node, CheckTx every transaction of a block before the block is executed, plus
	// transactions that are checked but never delivered (per mille of blocks that get the extra ones).
	Mempool int
	// Hook is called after each committed block (for checks that need extra observation).
	Hook func(hr *HistRun, h int64) error
	// Script may replace / extend the generated block.
	Script func(hr *HistRun, h int64, b *BlockSpec, txs []*TxInfo) (*BlockSpec, []*TxInfo)
}

type HistRun struct {
	C        *Ctx
	Case     int
	Opts     *HistOpts
	G        *Gen
	R        *Replica
	M        *Model
	Sim      *TMSim
	Blocks   []*BlockSpec
	Txs      [][]*TxInfo
	Results  []*BlockResult
	AppHash  []byte
	Issues   []Issue
	Total0   *big.Int // genesis total value
	Total    *big.Int // expected running total (genesis + minted - burned)
	Aborted  string
	Times    map[int64]int64
	Accepted map[string]int
	Dir      string
	Died     *ErrDead
	okHash   map[string]int64 // successful transaction bytes -> height (C04: at most once)
	okNonce  map[string]int64 // sender/nonce of successful transactions -> height
	Rejected map[string]int
	jailed   map[string]int64 // validators jailed for downtime -> height
}

func totalValue(s *MState) *big.Int {
	t := new(big.Int)
	for _, a := range s.Accounts {
		t.Add(t, a.Bal)
	}
	p := int64(0)
	for _, d := range s.Delegatees {
		for _, st := range d.Stakes {
			p += st.Power
		}
	}
	for _, st := range s.Frozen {
		p += st.Power
	}
	t.Add(t, new(big.Int).Mul(big.NewInt(p), big1e18))
	return t
}

func typeName(t int32) string {
	switch t {
	case rctypes.TRX_TRANSFER:
		return "transfer"
	case rctypes.TRX_STAKING:
		return "staking"
	case rctypes.TRX_UNSTAKING:
		return "unstaking"
	case rctypes.TRX_PROPOSAL:
		return "proposal"
	case rctypes.TRX_VOTING:
		return "voting"
	case rctypes.TRX_CONTRACT:
		return "contract"
	case rctypes.TRX_SETDOC:
		return "setdoc"
	case rctypes.TRX_WITHDRAW:
		return "withdraw"
	}
	return fmt.Sprintf("type%d", t)
}

// attribute maps a state difference to the properties whose rules explain that part of the state.
func (hr *HistRun) attribute(d Diff, b *BlockSpec, so *stepOut) []string {
	switch d.Area {
	case "acct.balance":
		props := []string{"C02", "C16"}
		if hr.M.Ref != nil && (hr.M.Ref.Contracts[d.Key] || hr.touchedByEVM(d.Key)) {
			props = append(props, "C17")
		}
		return append(props, "C12", "C13")
	case "acct.nonce":
		if hr.M.Ref != nil && (hr.M.Ref.Contracts[d.Key] || hr.M.Ref.Destroyed[d.Key]) {
			return []string{"C17"}
		}
		return []string{"C04"}
	case "acct.code":
		return []string{"C17"}
	case "acct.meta":
		return []string{"C05"}
	case "deleg":
		props := []string{"C11"}
		if len(b.Evidence) > 0 || len(so.Jailed) > 0 {
			props = append(props, "C14")
		}
		return append(props, "C12")
	case "deleg.marks":
		return []string{"C14"}
	case "frozen":
		props := []string{"C12", "C11"}
		if len(so.Jailed) > 0 {
			props = append(props, "C14")
		}
		return props
	case "reward":
		return []string{"C13"}
	case "reward.detail":
		return nil
	case "params":
		return []string{"C15"}
	case "proposal", "frozenprop":
		props := []string{"C15"}
		if len(b.Evidence) > 0 {
			props = append(props, "C14")
		}
		return props
	}
	return nil
}

func (hr *HistRun) touchedByEVM(addr string) bool {
	return hr.M.Ref != nil && hr.M.Ref.BlockTouched[strings.ToUpper(addr)]
}

func (hr *HistRun) issue(prop, sig, detail string) {
	hr.Issues = append(hr.Issues, Issue{prop, sig, detail})
}

// Report turns the collected issues into violations (own property) and notes (others).
func (hr *HistRun) Report(owns ...string) {
	own := map[string]bool{}
	for _, o := range owns {
		own[o] = true
	}
	if hr.Died != nil && !own["C09"] {
		hr.C.Inconclusive("history " + hr.Opts.Name + " could not be completed, the node died: " + firstLine(hr.Died.Stderr))
	}
	for _, is := range hr.Issues {
		mine := false
		for _, p := range strings.Split(is.Prop, ",") {
			if own[p] {
				mine = true
			}
		}
		if mine {
			hr.C.Violation(hr.Case, is.Sig, is.Detail, hr.replayDoc())
		} else {
			hr.C.Note(fmt.Sprintf("other=%s %s", is.Prop, is.Sig))
			if os.Getenv("VERIF_DEBUG") != "" {
				fmt.Printf("DEBUG[%s case %d] %s %s: %s\n", hr.Opts.Name, hr.Case, is.Prop, is.Sig, is.Detail)
			}
		}
	}
}

func (hr *HistRun) replayDoc() interface{} {
	type tx struct {
		Label string
		Raw   string
	}
	type blk struct {
		Height   int64
		Time     int64
		Proposer string
		Votes    []string
		Evidence []string
		Txs      []tx
		Codes    []uint32
	}
	var bl []blk
	for i, b := range hr.Blocks {
		x := blk{Height: b.Height, Time: b.Time, Proposer: hx(b.Proposer)}
		for _, v := range b.Votes {
			x.Votes = append(x.Votes, fmt.Sprintf("%s:%d:%v", hx(v.Addr), v.Power, v.Signed))
		}
		for _, e := range b.Evidence {
			x.Evidence = append(x.Evidence, fmt.Sprintf("%s:%d@%d", hx(e.Addr), e.Power, e.Height))
		}
		for j, t := range hr.Txs[i] {
			x.Txs = append(x.Txs, tx{t.Label, hx(t.Raw)})
			if i < len(hr.Results) && j < len(hr.Results[i].Txs) {
				x.Codes = append(x.Codes, hr.Results[i].Txs[j].Code)
			}
		}
		bl = append(bl, x)
	}
	var vals []string
	for _, v := range hr.G.G.Validators {
		vals = append(vals, fmt.Sprintf("%s:%d", v.Key.A(), v.Power))
	}
	return map[string]interface{}{"history": hr.Opts.Name, "chain_id": hr.G.G.ChainID, "params": hr.G.G.Params, "validators": vals, "blocks": bl}
}

func blockTime(h int64, rng *rand.Rand) int64 { return 0 }

// runHistory executes one generated history under the model monitor.
func runHistory(c *Ctx, caseIdx int, rng *rand.Rand, o *HistOpts) *HistRun {
	seed := c.Seed*1_000_003 + int64(caseIdx)
	g := NewGen(rng, seed, o.Gen, o.Params)
	hr := &HistRun{C: c, Case: caseIdx, Opts: o, G: g, Times: map[int64]int64{}, Accepted: map[string]int{}, Rejected: map[string]int{}}
	dir := c.DirI(caseIdx, fmt.Sprintf("%s-%d", o.Name, caseIdx))
	hr.Dir = dir
	r, err := Spawn(dir, SpawnOpt{Race: o.Race})
	if err != nil {
		c.Inconclusive("spawn: " + err.Error())
		return hr
	}
	hr.R = r
	defer func() { r.Close() }()
	if _, err := r.Info(); err != nil {
		c.Err(caseIdx, "info", err)
		return hr
	}
	if _, err := r.InitChain(g.G.InitChainReq()); err != nil {
		c.Err(caseIdx, "initchain", err)
		return hr
	}
	sim, _ := NewTMSim(g.G)
	hr.Sim = sim
	m := NewModel(g.G, sim)
	if o.UseRef {
		m.Ref = NewRefEVM()
		g.ExtraContracts = func() []string { return sortedKeys(m.Ref.Contracts) }
	}
	hr.M = m
	hr.Total0 = totalValue(m.Hist[0])
	hr.Total = new(big.Int).Set(hr.Total0)
	shadow := &Model{G: g.G, Hist: m.Hist, Sim: sim}
	tm := int64(1700000000)
	var admitted []*TxInfo // transactions of the coming block that CheckTx admitted
	for h := int64(1); h <= int64(o.Blocks); h++ {
		tm += int64(1 + rng.Intn(5))
		hr.Times[h] = tm
		m.Times[h] = tm
		pre := m.Hist[h-1]
		b, txs := g.NextBlock(h, tm, pre, sim, m.lastValidators(h), shadow)
		if o.Script != nil {
			b, txs = o.Script(hr, h, b, txs)
		}
		hr.Blocks = append(hr.Blocks, b)
		hr.Txs = append(hr.Txs, txs)
		if o.Mempool > 0 {
			var pool [][]byte
			pool = append(pool, b.Txs...)
			if rng.Intn(1000) < o.Mempool {
				pool = append(pool, directedConflicts(g.Keys, g.G.ChainID, pre, h, rng)...)
			}
			admitted = admitted[:0]
			for pi, tx := range pool {
				cres, err := r.CheckTx(tx)
				if err == nil && cres != nil && cres.Code == 0 && pi < len(txs) && bytes.Equal(txs[pi].Raw, tx) {
					admitted = append(admitted, txs[pi])
				}
				if err != nil {
					if de, ok := err.(*ErrDead); ok {
						hr.Died = de
						hr.issue("C09", "replica-died:"+sigLine(de.Stderr), fmt.Sprintf("history %s: the node died in CheckTx before block %d\n%s", o.Name, h, de.Error()))
						return hr
					}
					c.Err(caseIdx, "checktx", err)
					return hr
				}
				c.Count("mempool-checks", 1)
			}
		}
		var mid func(k int) error
		if o.Mempool > 0 && rng.Intn(3) == 0 {
			// mempool checks also arrive while a block is being executed: transactions that follow the delivered ones
			// (same senders, next nonces), i.e. the rest of this block, checked again at a PRNG-chosen point
			at := 0
			if len(b.Txs) > 0 {
				at = rng.Intn(len(b.Txs) + 1)
			}
			mid = func(k int) error {
				if k != at {
					return nil
				}
				for _, tx := range b.Txs[k:] {
					if _, err := r.CheckTx(tx); err != nil {
						return err
					}
					c.Count("mempool-checks-mid-block", 1)
				}
				// ... and queries, for the latest and for older heights
				paths := []string{"account", "delegatee", "stakes", "stakes/total_power", "stakes/voting_power", "reward", "proposal", "gov_params"}
				for q := 0; q < 3; q++ {
					p := paths[rng.Intn(len(paths))]
					var key []byte
					switch p {
					case "account", "delegatee", "stakes", "reward":
						key = g.pick(g.All).Addr
					}
					qh := int64(0)
					if h > 2 && rng.Intn(2) == 0 {
						qh = 1 + rng.Int63n(h-1)
					}
					if _, err := r.Query(p, key, qh); err != nil {
						return err
					}
					c.Count("queries-mid-block", 1)
				}
				return nil
			}
		}
		res, err := execBlockMid(r, g.G.ChainID, b, hr.AppHash, mid)
		if err != nil {
			if de, ok := err.(*ErrDead); ok {
				hr.Died = de
				hr.issue("C09", "replica-died:"+sigLine(de.Stderr), fmt.Sprintf("history %s: the node died while executing block %d\n%s", o.Name, h, de.Error()))
				return hr
			}
			c.Err(caseIdx, fmt.Sprintf("block %d", h), err)
			return hr
		}
		if os.Getenv("VERIF_DEBUG_BLOCKS") != "" {
			ok, bad, firstBad, lastOk := 0, 0, -1, -1
			for i := range txs {
				if res.Txs[i].Code == 0 {
					ok++
					lastOk = i
				} else {
					bad++
					if firstBad < 0 {
						firstBad = i
					}
				}
			}
			fmt.Printf("DEBUGBLK %s h=%d txs=%d ok=%d bad=%d firstBad=%d lastOk=%d lastLabel=%s lastCode=%d\n", o.Name, h, len(txs), ok, bad, firstBad, lastOk, txs[len(txs)-1].Label, res.Txs[len(txs)-1].Code)
		}
		hr.Results = append(hr.Results, res)
		hr.AppHash = res.Commit.Data
		for i, t := range txs {
			name := "junk"
			if t.Tx != nil {
				name = typeName(t.Tx.Type)
			}
			if res.Txs[i].Code == 0 && t.Tx != nil {
				if hr.okHash == nil {
					hr.okHash, hr.okNonce = map[string]int64{}, map[string]int64{}
				}
				if h0, dup := hr.okHash[t.Hash]; dup {
					hr.issue("C04", "same-transaction-succeeded-twice", fmt.Sprintf("block %d tx %d (%s): these signed bytes already succeeded in block %d", h, i, t.Label, h0))
				}
				hr.okHash[t.Hash] = h
				sn := fmt.Sprintf("%s/%d", hx(t.Tx.From), t.Tx.Nonce)
				if h0, dup := hr.okNonce[sn]; dup {
					hr.issue("C04", "same-sender-nonce-succeeded-twice", fmt.Sprintf("block %d tx %d (%s): sender/nonce %s already succeeded in block %d", h, i, t.Label, sn, h0))
				}
				hr.okNonce[sn] = h
			}
			if res.Txs[i].Code == 0 {
				hr.Accepted[name]++
				c.Count("accepted."+name, 1)
			} else {
				hr.Rejected[name]++
				c.Count("rejected."+name, 1)
				c.SetAdd("reject-codes", fmt.Sprintf("%s:%d", name, res.Txs[i].Code))
				if t.Intend {
					c.Count("intended-valid-but-rejected", 1)
				}
			}
			if !t.Intend {
				c.SetAdd("invalid-variants", strings.SplitN(t.Label, "(", 2)[0])
			}
			if strings.HasPrefix(t.Label, "scenario:") {
				c.SetAdd("scenario-outcomes", fmt.Sprintf("%s=code%d", t.Label, res.Txs[i].Code))
			}
		}
		var addrs [][]byte
		if m.Ref != nil {
			// predict first so that newly created contracts are included in the dump request
		}
		so := m.Step(b, txs, res)
		if m.Ref != nil {
			for _, k := range sortedKeys(m.Ref.Contracts) {
				addrs = append(addrs, addrBytes(k))
			}
		}
		d, err := r.DumpAt(h, addrs)
		if err != nil {
			c.Err(caseIdx, fmt.Sprintf("dump %d", h), err)
			return hr
		}
		obs := fromDump(d)
		hr.Issues = append(hr.Issues, so.Issues...)
		// admission oracle (mempool side): what CheckTx let into the mempool before this block must satisfy the
		// stateless admission rules under the parameters committed before or by this block
		for _, t := range admitted {
			c.Count("mempool-admissions-judged", 1)
			for _, is := range admissionIssues(t, pre.Params, obs.Params) {
				hr.issue(is.Prop, is.Sig, fmt.Sprintf("block %d (%s): %s", h, t.Label, is.Detail))
			}
		}
		admitted = admitted[:0]
		if so.FormerContractTransfers > 0 {
			c.Count("transfers-to-former-contract-addresses", so.FormerContractTransfers)
		}
		zeroHash := strings.Repeat("0", 64)
		lostGenesis := int64(0)
		if h == 1 {
			blockTx := map[string]bool{}
			for _, t := range txs {
				blockTx[t.Hash] = true
			}
			if n := adoptGenesisStakeIDs(so.Expected, obs, blockTx); n > 0 {
				c.Count("genesis-stake-ids-adopted-from-observation", n)
			}
		}
		for _, df := range diffStates(so.Expected, obs) {
			if (df.Area == "reward" || df.Area == "reward.detail") && so.RewardRange != nil {
				// warm-up: accept any issuance inside the admissible range (see model)
				eo, oo := so.Expected.Rewards[df.Key], obs.Rewards[df.Key]
				ec, oc := new(big.Int), new(big.Int)
				if eo != nil {
					ec = eo.Cumulated
				}
				if oo != nil {
					oc = oo.Cumulated
				}
				mi := new(big.Int)
				if so.ModelIssued[df.Key] != nil {
					mi = so.ModelIssued[df.Key]
				}
				obsIssued := new(big.Int).Add(new(big.Int).Sub(oc, ec), mi) // what the implementation issued to this owner in this block
				rg, ok := so.RewardRange[df.Key]
				if !ok {
					rg = [2]*big.Int{new(big.Int), new(big.Int)}
				}
				if obsIssued.Cmp(rg[0]) >= 0 && obsIssued.Cmp(rg[1]) <= 0 {
					c.Count("warm-up-reward-differences-inside-admissible-range", 1)
					continue
				}
			}
			if df.Area == "acct.code" && m.Ref != nil && !m.Ref.HasCode(df.Key) {
				// the marker "this address is a contract" of an address that holds no code (any more): not pinned by any property
				c.Count("contract-markers-of-codeless-addresses-not-compared", 1)
				continue
			}
			if (df.Area == "proposal" || df.Area == "frozenprop") && so.Ambiguous[df.Key] {
				c.Count("ambiguous-proposal-states-skipped", 1)
				continue
			}
			props := hr.attribute(df, b, so)
			if props == nil {
				c.Note("unattributed diff " + df.Area)
				continue
			}
			sig := "state-diff:" + df.Area
			if df.Lost != nil && df.Lost.TxHash == zeroHash {
				// all genesis stakes carry the same id; the unbonding ledger is keyed by id
				sig = "genesis-stake-id-collision:unbonding-stake-lost"
				lostGenesis += df.Lost.Power
			}
			hr.issue(strings.Join(props, ","), sig, fmt.Sprintf("block %d: %s", h, df.String()))
		}
		// EVM code and storage
		if m.Ref != nil {
			for _, dc := range d.Contracts {
				exp := m.Ref.ExpectedContract(dc.Addr)
				if exp.Code != dc.Code {
					hr.issue("C17", "evm-code-mismatch", fmt.Sprintf("block %d: contract %s code differs: reference %d bytes, application %d bytes", h, dc.Addr, len(exp.Code)/2, len(dc.Code)/2))
				}
				if fmt.Sprint(exp.Storage) != fmt.Sprint(dc.Storage) {
					hr.issue("C17", "evm-storage-mismatch", fmt.Sprintf("block %d: contract %s storage differs: reference %v, application %v", h, dc.Addr, exp.Storage, dc.Storage))
				}
				c.Count("contract-states-compared", 1)
			}
		}
		// conservation (C02): evaluated on the observed state
		hr.Total.Add(hr.Total, so.Minted)
		hr.Total.Sub(hr.Total, so.Burned)
		if got := totalValue(obs); got.Cmp(hr.Total) != 0 {
			sig := "conservation"
			off := new(big.Int).Sub(got, hr.Total)
			if lostGenesis > 0 && off.Cmp(new(big.Int).Mul(big.NewInt(-lostGenesis), big1e18)) == 0 {
				sig = "genesis-stake-id-collision:value-destroyed"
			}
			hr.issue("C02", sig, fmt.Sprintf("block %d: total value %s, expected %s (genesis %s; off by %s)", h, got, hr.Total, hr.Total0, off))
			hr.Total = got // re-synchronise: report once per block where it becomes observable
		}
		// in-memory state that execution depends on must agree with what was committed (C15, C10)
		if act, err := r.Active(); err == nil && act != nil {
			if act.Params == nil || *act.Params != obs.Params {
				hr.issue("C15", "active-params-differ-from-committed", fmt.Sprintf("block %d: parameters in force in memory %+v, governance ledger says %+v", h, act.Params, obs.Params))
			}
			want := topN(pre, &pre.Params)
			if h == 1 {
				want = topN(m.Hist[0], &m.Hist[0].Params)
			}
			got := map[string]int64{}
			for _, v := range act.LastValidators {
				got[v.Addr] = v.Power
			}
			okv := len(got) == len(want)
			minIn := int64(-1)
			for _, d := range want {
				if minIn < 0 || d.Total < minIn {
					minIn = d.Total
				}
			}
			for a, p := range got {
				d := pre.Delegatees[a]
				if h == 1 {
					d = m.Hist[0].Delegatees[a]
				}
				// ties at the cut may be resolved either way: members must be eligible, carry their bonded power, and not rank below the cut
				if d == nil || d.Total != p || d.Total < minIn || d.Self < minPowerOf(&pre.Params) {
					okv = false
				}
			}
			if !okv {
				hr.issue("C10", "in-memory-validators-differ", fmt.Sprintf("block %d: the application believes it last reported %v, the staking ledger of the previous block yields %s", h, got, rankStr(want)))
			}
			c.Count("in-memory-state-checks", 1)
		}
		// structural stake invariants (C11) on the observed state
		hr.checkStakeInvariants(obs, h)
		m.Hist[h] = obs
		if m.Ref != nil {
			m.Ref.Snapshot(h)
		}
		for _, a := range so.Jailed {
			if hr.jailed == nil {
				hr.jailed = map[string]int64{}
			}
			hr.jailed[a] = h
		}
		// validator updates (C10)
		if err := sim.ApplyUpdates(h, res.End.ValidatorUpdates); err != nil {
			if strings.Contains(err.Error(), "empty set") {
				hr.Aborted = "validator set would become empty"
				c.Count("aborted-empty-valset", 1)
				return hr
			}
			hr.issue("C10"+hr.leavingProps(pre, sim.SetAt(h+1)), "malformed-validator-updates", fmt.Sprintf("block %d: Tendermint would reject the validator updates: %v", h, err))
			return hr
		}
		hr.checkValidatorSet(h, pre, &pre.Params)
		c.Count("blocks", 1)
		c.Count("txs", len(txs))
		if len(so.Jailed) > 0 {
			c.Count("jailings", len(so.Jailed))
		}
		if len(so.Slashed) > 0 {
			c.Count("slashings", len(so.Slashed))
		}
		c.Count("proposals-frozen", so.Frozen)
		c.Count("proposals-applied", so.Applied)
		c.Count("validator-updates", len(res.End.ValidatorUpdates))
		restartP := o.RestartPermille
		if restartP > 0 && (len(res.End.ValidatorUpdates) > 0 || hr.blockChangedStakes(len(hr.Results)-1) || so.Applied > 0) {
			restartP *= 4 // restarts directly after blocks that changed stakes, membership or parameters
		}
		if restartP > 0 && h < int64(o.Blocks) && rng.Intn(1000) < restartP {
			if err := r.Stop(); err != nil {
				c.Err(caseIdx, "stop", err)
				return hr
			}
			r2, info, err := openReplica(c, dir, g.G, SpawnOpt{Race: o.Race}, false)
			if err != nil {
				if de, ok := err.(*ErrDead); ok {
					hr.Died = de
					hr.issue("C07", "restart-open-fails:"+sigLine(de.Stderr), fmt.Sprintf("history %s: the node does not start after a graceful stop at height %d\n%s", o.Name, h, de.Error()))
					return hr
				}
				c.Err(caseIdx, "reopen", err)
				return hr
			}
			r = r2
			hr.R = r2
			_ = r.SetTimes(hr.Times)
			if info.LastBlockHeight != h || hx(info.LastBlockAppHash) != hx(hr.AppHash) {
				hr.issue("C07", "restart-info", fmt.Sprintf("history %s: after a restart at height %d Info reports height %d hash %x (expected %x)", o.Name, h, info.LastBlockHeight, info.LastBlockAppHash, hr.AppHash))
			}
			c.Count("restarts-inside-history", 1)
		}
		if o.Hook != nil {
			if err := o.Hook(hr, h); err != nil {
				c.Err(caseIdx, "hook", err)
				return hr
			}
		}
	}
	_ = r.Stop()
	return hr
}

// checkValidatorSet: the folded validator set in force at h+2 must be a correct top-N of state(h-1).
func (hr *HistRun) checkValidatorSet(h int64, prev *MState, p *DParams) {
	if h == 1 {
		prev = hr.M.Hist[0]
	}
	set := hr.Sim.SetAt(h + 2)
	ranked := rankDelegatees(prev, p)
	n := int(p.MaxValidatorCnt)
	want := len(ranked)
	if want > n {
		want = n
	}
	bad := func(msg string) {
		hr.issue("C10"+hr.leavingProps(prev, set), "validator-set-mismatch", fmt.Sprintf("block %d: %s; set=%s eligible=%s", h, msg, setStr(set), rankStr(ranked)))
	}
	if len(set) != want {
		bad(fmt.Sprintf("validator set has %d members, the staking ledger yields %d", len(set), want))
		return
	}
	byAddr := map[string]*MDeleg{}
	for _, d := range ranked {
		byAddr[d.Addr] = d
	}
	minIn := int64(-1)
	in := map[string]bool{}
	for _, v := range set {
		d := byAddr[hx(v.Addr)]
		if d == nil {
			bad(fmt.Sprintf("member %s is not an eligible delegatee", hx(v.Addr)))
			return
		}
		if d.Total != v.Power {
			bad(fmt.Sprintf("member %s has voting power %d, bonded power %d", hx(v.Addr), v.Power, d.Total))
			return
		}
		if hx(v.Pub) != d.PubKey {
			bad(fmt.Sprintf("member %s announced with a different public key", hx(v.Addr)))
			return
		}
		in[d.Addr] = true
		if minIn < 0 || d.Total < minIn {
			minIn = d.Total
		}
	}
	for _, d := range ranked {
		if !in[d.Addr] && d.Total > minIn {
			bad(fmt.Sprintf("excluded delegatee %s (power %d) outranks an included one (power %d)", d.Addr, d.Total, minIn))
			return
		}
	}
	hr.C.Count("validator-sets-checked", 1)
}

// leavingProps: when a validator-set problem involves a member whose delegatee record is gone (all its stake is
// unbonding), the problem is also one of "a released stake carries no voting power" (C12) and, if the validator was
// jailed for downtime, of "leaves the validator set" (C14).
func (hr *HistRun) leavingProps(prev *MState, set []simVal) string {
	out := ""
	c12, c14 := false, false
	for _, v := range set {
		a := hx(v.Addr)
		if prev.Delegatees[a] != nil {
			continue
		}
		for _, st := range prev.Frozen {
			if st.To == a {
				c12 = true
			}
		}
		if _, ok := hr.jailed[a]; ok {
			c14 = true
		}
	}
	if c12 {
		out += ",C12"
	}
	if c14 {
		out += ",C14"
	}
	return out
}

func setStr(s []simVal) string {
	var p []string
	for _, v := range s {
		p = append(p, fmt.Sprintf("%s:%d", hx(v.Addr)[:8], v.Power))
	}
	return "[" + strings.Join(p, " ") + "]"
}

func rankStr(r []*MDeleg) string {
	var p []string
	for _, d := range r {
		p = append(p, fmt.Sprintf("%s:%d/%d", d.Addr[:8], d.Total, d.Self))
	}
	return "[" + strings.Join(p, " ") + "]"
}

func (hr *HistRun) checkStakeInvariants(s *MState, h int64) {
	seen := map[string]string{}
	for _, k := range sortedKeys(s.Delegatees) {
		d := s.Delegatees[k]
		var self, total int64
		for _, st := range d.Stakes {
			total += st.Power
			if st.Owner == d.Addr {
				self += st.Power
			}
			if st.To != d.Addr {
				hr.issue("C11", "stake-under-wrong-delegatee", fmt.Sprintf("block %d: stake %s targets %s but is bonded under %s", h, st.TxHash, st.To, d.Addr))
			}
			id := st.TxHash + "|" + st.Owner
			if w, ok := seen[id]; ok {
				hr.issue("C11", "stake-recorded-twice", fmt.Sprintf("block %d: stake %s recorded under %s and %s", h, id, w, "delegatee "+d.Addr))
			}
			seen[id] = "delegatee " + d.Addr
		}
		if self != d.Self || total != d.Total {
			hr.issue("C11", "power-sum-mismatch", fmt.Sprintf("block %d: delegatee %s self=%d total=%d but stakes sum to self=%d total=%d", h, d.Addr, d.Self, d.Total, self, total))
		}
	}
	for _, k := range sortedKeys(s.Frozen) {
		st := s.Frozen[k]
		id := st.TxHash + "|" + st.Owner
		if w, ok := seen[id]; ok {
			hr.issue("C11", "stake-recorded-twice", fmt.Sprintf("block %d: stake %s is unbonding and also recorded under %s", h, id, w))
		}
		seen[id] = "unbonding"
	}
	hr.C.Count("stake-invariant-checks", 1)
}

var _ = sort.Strings
var _ abci.ResponseDeliverTx

// blockChangedStakes: did block index bi contain an accepted staking / unstaking transaction?
func (hr *HistRun) blockChangedStakes(bi int) bool {
	if bi < 0 || bi >= len(hr.Results) {
		return false
	}
	for ti, t := range hr.Txs[bi] {
		if t.Tx != nil && (t.Tx.Type == rctypes.TRX_STAKING || t.Tx.Type == rctypes.TRX_UNSTAKING) && hr.Results[bi].Txs[ti].Code == 0 {
			return true
		}
	}
	return false
}
