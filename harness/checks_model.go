package main

// Checks decided by the one-step reference model over generated histories:
// C02 C04 C10 C11 C12 C13 C14 C15 C16 (and C17 through the reference EVM).

import (
	"encoding/json"
	"fmt"
	"math/big"

	rctypes "github.com/rigochain/rigo-go/ctrlers/types"
)

var _ = big.NewInt
var _ = rctypes.TRX_TRANSFER

type preset struct {
	name   string
	weight map[string]int
	tune   func(o *HistOpts)
}

func basePreset() *HistOpts {
	return &HistOpts{Blocks: 40, Gen: GenOpts{NVal: 4, NHolders: 5, NFresh: 3, MaxTx: 10, InvalidPct: 25, W: defaultWeights(),
		Evidence: 40, Absent: 80, NoProposer: 60, OddPropose: 60}}
}

// presetFor returns the history options for case i of property id.
func presetFor(c *Ctx, id string, i int) *HistOpts {
	rng := c.Rng("preset-"+id, i)
	o := basePreset()
	o.Name = fmt.Sprintf("%s-h%d", id, i)
	o.Params = randParams(rng)
	o.Gen.NVal = 1 + rng.Intn(6)
	o.Gen.NHolders = 3 + rng.Intn(6)
	o.Gen.EqualPower = rng.Intn(3) == 0
	w := o.Gen.W
	switch id {
	case "C02":
		o.Gen.EVM, o.UseRef = true, true // contract deployments and calls carrying value
		w["deploy"], w["call"], w["xfer2contract"] = 5, 25, 6
	case "C04":
		o.Gen.EVM, o.UseRef = true, true // the quantifier covers native and contract transactions
		w["deploy"], w["call"], w["xfer2contract"] = 5, 25, 8
		w["replay"] = 25
		w["transfer"] = 40
		o.Gen.InvalidPct = 35
		o.Gen.MaxTx = 14
	case "C10", "C11":
		if id == "C10" {
			o.RestartPermille = 120 // the quantifier of C10 includes restarts
		}
		w["stake"], w["delegate"], w["unstake"] = 25, 25, 25
		o.Gen.Evidence, o.Gen.Absent = 80, 150
		o.Gen.NVal = 2 + rng.Intn(5)
		o.Params.MaxValidatorCnt = int64(1 + rng.Intn(5))
	case "C12":
		o.RestartPermille = 100 // unbonding spans restarts
		w["stake"], w["delegate"], w["unstake"] = 20, 20, 40
		o.Blocks = 50
	case "C13":
		o.RestartPermille = 60
		// tiny, ordinary and very large rates (power x rate beyond 2^64)
		o.Params.RewardPerPower = []string{"2000000000", "1", "700000000000000000", "3"}[i%4]
		w["withdraw"] = 30
		w["stake"], w["delegate"], w["unstake"] = 15, 15, 10
		o.Gen.Absent = 250
	case "C14":
		o.Gen.Evidence, o.Gen.Absent = 200, 300
		w["proposal"], w["vote"] = 10, 20
		w["stake"], w["delegate"] = 20, 20
	case "C15":
		w["proposal"], w["vote"] = 20, 40
		o.Blocks = 60
		o.Gen.Evidence = 60
		o.Gen.NVal = 2 + rng.Intn(5)
	case "C17":
		o.Gen.EVM, o.UseRef = true, true
		w["deploy"], w["call"], w["xfer2contract"] = 12, 60, 12
		w["transfer"], w["stake"], w["delegate"], w["unstake"], w["withdraw"], w["proposal"], w["vote"] = 15, 5, 5, 4, 4, 0, 0
		o.Gen.InvalidPct = 10
		o.Gen.MaxTx = 12
		o.Gen.Evidence, o.Gen.Absent = 0, 0
		if (c.Quick() && i%16 == 3) || (!c.Quick() && i%64 == 3) {
			// a long-lived process: cumulative effects across many blocks (gas pools, caches, journals)
			o.Blocks = 150
			o.RestartPermille = -1 // one uninterrupted process lifetime
			o.Gen.MaxTx = 14
			w["call"], w["deploy"] = 90, 6
		}
	case "C16":
		o.Gen.EVM, o.UseRef = true, true
		w["deploy"], w["call"], w["xfer2contract"] = 5, 20, 6
		o.Gen.InvalidPct = 40
		w["proposal"], w["vote"] = 10, 25
	}
	if o.Gen.NVal > int(o.Params.MaxValidatorCnt) {
		o.Gen.NVal = int(o.Params.MaxValidatorCnt)
	}
	if !c.Quick() && i == 7 && (id == "C04" || id == "C02") {
		// thorough only: one history whose process sees ~140000 distinct accounts (more than 2^17) before the usual mixed traffic goes on
		o.Gen.NReserved = 6
		o.Gen.W["replay"] = 30
		o.Blocks = 50
		o.Params.GasPrice, o.Params.MinTrxGas = "1", 10
		withScenarios(o, scenMassPopulation(2, 28, 5000))
		o.Mempool, o.RestartPermille = 0, 0
		return o
	}
	if i%3 != 0 {
		o.Mempool = 400 // behave like a node with a mempool: CheckTx precedes delivery
	}
	if o.RestartPermille == 0 && i%2 == 1 {
		o.RestartPermille = 40 // a node's life includes restarts (more likely right after stake / membership / parameter changes)
	}
	// directed scenarios over the random filling (every second history)
	if i%2 == 0 {
		o.Gen.NReserved = 6
		var sc []*scenario
		switch id {
		case "C02", "C11", "C12":
			if id == "C12" && i%4 == 2 {
				sc = append(sc, scenParamChange(int64(3+rng.Intn(4)), "lazyRewardBlocks")) // the unbonding period changes while stakes are unbonding
			}
			if i%8 == 6 {
				// a genesis validator without an account goes offline for good
				if o.Gen.NVal < 3 {
					o.Gen.NVal = 3
				}
				if o.Params.MaxValidatorCnt < int64(o.Gen.NVal) {
					o.Params.MaxValidatorCnt = int64(o.Gen.NVal)
				}
				o.Gen.UnfundedLast = true
				o.Gen.NoProposer, o.Gen.OddPropose = 0, 0
				sc = append(sc, scenOfflineUnfunded())
			}
			if i%4 == 0 {
				o.Gen.NVal = 3
				o.Params.MaxValidatorCnt = 6
				o.Params.MaxUpdatableStakeRatio, o.Params.MaxIndividualStakeRatio, o.Params.MinSelfStakeRatio = 33, 100000, 0
				sc = append(sc, scenLimiterRejection(int64(3+rng.Intn(6))), scenForcedRelease(int64(10+rng.Intn(6))))
			} else {
				sc = append(sc, scenExitRestake(int64(3+rng.Intn(6))), scenForcedRelease(int64(4+rng.Intn(8))))
			}
		case "C10":
			sc = append(sc, scenExitRestake(int64(3+rng.Intn(6))), scenJailAndEvidence(int64(6+rng.Intn(6))))
			if i%4 == 0 {
				sc = append(sc, scenParamChange(int64(3+rng.Intn(4)), "maxValidatorCnt")) // the limit drops below the current set (restarts follow parameter changes)
			}
		case "C13":
			sc = append(sc, scenForcedRelease(int64(4+rng.Intn(8))), scenJailAndEvidence(int64(8+rng.Intn(6))), scenParamChange(int64(3+rng.Intn(4)), "rewardPerPower"))
		case "C14":
			sc = append(sc, scenJailAndEvidence(int64(4+rng.Intn(6))), scenTwinProposals(int64(3+rng.Intn(3)), false))
		case "C15":
			sc = append(sc, scenTwinProposals(int64(3+rng.Intn(5)), i%4 == 0), scenGasPriceChange(int64(12+rng.Intn(6))))
		case "C16":
			sc = append(sc, scenGasPriceChange(int64(3+rng.Intn(5))))
		case "C12x":
		case "C04":
			sc = append(sc, scenExitRestake(int64(3+rng.Intn(6))))
		case "C17":
			sc = nil
		}
		if len(sc) > 0 {
			withScenarios(o, sc...)
		}
	}
	return o
}

func modelCheck(id string) checkFn {
	return func(c *Ctx) {
		c.rule = "generated block histories (all native transaction types, valid and single-defect invalid variants, signer/absentee/evidence patterns) executed on the real application; after every commit the full state dump is compared with a one-step reference model; one evaluation = one executed block whose complete committed state was compared with the model; a block is non-trivial when at least one of its transactions was accepted, distinct by (history, height, app hash)"
		c.assumptions = []string{"genesis validators satisfy the validator limits", "min validator stake >= 1 unit", "the anchor validator never leaves (Tendermint cannot run with an empty validator set)"}
		n := c.N(96, 2000)
		c.Parallel(n, 0, func(i int) {
			o := presetFor(c, id, i)
			if !c.Quick() {
				o.Blocks += 20
			}
			if id == "C17" {
				o.Hook = vmCallHook(c, c.Rng("vmcall", i))
			}
			hr := runHistory(c, i, c.Rng("hist-"+id, i), o)
			if id == "C17" && len(hr.Results) > 0 && i%2 == 0 {
				// read-only calls must not change state: a quiet twin that served no vm_call commits the same hashes
				quietTwin(c, i, hr, "vm_call-changes-state")
			}
			c.Eval(len(hr.Results))
			for bi, res := range hr.Results {
				for _, t := range res.Txs {
					if t.Code == 0 {
						c.Distinct(fmt.Sprintf("%s/%d/%x", o.Name, bi+1, res.Commit.Data))
						break
					}
				}
			}
			c.Count("histories", 1)
			if i < 2 {
				c.Sample(map[string]interface{}{"history": o.Name, "validators": len(hr.G.G.Validators), "blocks": len(hr.Results), "accepted": hr.Accepted, "rejected": hr.Rejected, "params": hr.G.G.Params})
			}
			hr.Report(id)
		})
	}
}

func init() {
	for _, id := range []string{"C02", "C04", "C10", "C11", "C12", "C13", "C14", "C15", "C16", "C17"} {
		checks[id] = modelCheck(id)
	}
}

// ---- C17: vm_call queries (read-only contract calls) ---------------------------------------------

type vmCallResult struct {
	UsedGas    string `json:"usedGas"`
	Err        string `json:"vmErr"`
	ReturnData []byte `json:"returnData"`
}

// vmCallHook issues read-only contract calls through the query path after each block and compares
// them with the reference EVM on the state of that height.
func vmCallHook(c *Ctx, rng interface{ Intn(int) int }) func(hr *HistRun, h int64) error {
	return func(hr *HistRun, h int64) error {
		g := hr.G
		if hr.M.Ref == nil || len(g.Contracts) == 0 {
			return nil
		}
		// a pending (checked, never delivered) transfer must not be visible to read-only calls
		var pendingSender []byte
		if st := hr.M.Hist[h]; st != nil {
			price := bigDec(st.Params.GasPrice)
			for _, k := range g.All {
				a := st.Accounts[k.A()]
				if a == nil || a.Bal.Cmp(new(big.Int).Mul(big.NewInt(int64(st.Params.MinTrxGas)+100000), price)) < 0 {
					continue
				}
				amt := new(big.Int).Div(a.Bal, big.NewInt(3))
				tx := mkTx(rctypes.TRX_TRANSFER, k.Addr, g.Fresh[0].Addr, a.Nonce, st.Params.MinTrxGas+1, u256big(price), u256big(amt), nil, h*1_000_000+700_000)
				if _, err := hr.R.CheckTx(signTx(tx, k, g.G.ChainID)); err != nil {
					return err
				}
				pendingSender = k.Addr
				c.Count("vm_call-with-pending-mempool-tx", 1)
				break
			}
		}
		for k := 0; k < 6; k++ {
			to := addrBytes(g.Contracts[rng.Intn(len(g.Contracts))].Addr)
			from := g.pick(g.All).Addr
			slot := wordU(uint64(10 + rng.Intn(4)))
			var data []byte
			name := ""
			switch rng.Intn(7) {
			case 0:
				name, data = "load", callData(2, slot, nil, nil)
			case 1:
				name, data = "balances", callData(11, g.pick(g.All).Addr, nil, nil)
				if pendingSender != nil {
					name, data = "balances-of-pending-sender", callData(11, pendingSender, nil, nil)
				}
			case 2:
				name, data = "store", callData(1, slot, wordU(uint64(rng.Intn(1000))), nil) // a write: must not persist
			case 3:
				name, data = "revertdata", callData(4, wordU(uint64(rng.Intn(99))), nil, nil)
			case 4:
				name, data = "static-load", callData(12, to, slot, wordU(2))
			case 5:
				name, data = "create", callData(8, nil, nil, nil) // creates a child inside the call: must not persist
			default:
				name, data = "destructself", callData(17, nil, nil, nil)
			}
			qh := h
			if h > 2 && rng.Intn(3) == 0 {
				qh = 1 + int64(rng.Intn(int(h)))
			}
			if hr.M.Ref.Snaps[qh] == nil || hr.M.Hist[qh] == nil {
				continue
			}
			qd := append(append(append([]byte{}, from...), to...), data...)
			res, err := hr.R.Query("vm_call", qd, qh)
			if err != nil {
				return err
			}
			ref, rerr := hr.M.Ref.CallAt(hr.M.Hist[qh], from, to, data, qh, hr.Times[qh])
			c.Count("vm_call-queries", 1)
			c.SetAdd("vm_call-kinds", name)
			tag := fmt.Sprintf("history %s vm_call %s to %s at height %d (latest %d)", hr.Opts.Name, name, hx(to), qh, h)
			if rerr != nil {
				if res.Code == 0 {
					hr.issue("C17", "vm_call-mismatch", fmt.Sprintf("%s: reference refuses the call (%v), application answers %s", tag, rerr, res.Value))
				}
				continue
			}
			if res.Code != 0 {
				hr.issue("C17", "vm_call-mismatch", fmt.Sprintf("%s: application error code %d %q, reference executed (err=%v)", tag, res.Code, res.Log, ref.Err))
				continue
			}
			var got vmCallResult
			if err := json.Unmarshal(res.Value, &got); err != nil {
				hr.issue("C17", "vm_call-mismatch", fmt.Sprintf("%s: unparsable answer %s", tag, res.Value))
				continue
			}
			wantErr := ""
			if ref.Err != nil {
				wantErr = ref.Err.Error()
			}
			wantGas := fmt.Sprint(ref.UsedGas)
			if got.UsedGas == "" {
				got.UsedGas = "0"
			}
			if got.Err != wantErr || hx(got.ReturnData) != hx(ref.ReturnData) || got.UsedGas != wantGas {
				hr.issue("C17", "vm_call-mismatch", fmt.Sprintf("%s: application {gas %s err %q ret %x}, reference {gas %s err %q ret %x}", tag, got.UsedGas, got.Err, got.ReturnData, wantGas, wantErr, ref.ReturnData))
			}
		}
		return nil
	}
}

// quietTwin replays the blocks of hr on a fresh replica that serves no queries and compares consensus results.
func quietTwin(c *Ctx, i int, hr *HistRun, sig string) {
	r, _, err := openReplica(c, c.DirI(i, fmt.Sprintf("%s-%d-quiet", hr.Opts.Name, i)), hr.G.G, SpawnOpt{}, true)
	if err != nil {
		c.Err(i, "quiet twin", err)
		return
	}
	defer r.Close()
	var appHash []byte
	for bi, b := range hr.Blocks[:len(hr.Results)] {
		res, err := execBlock(r, hr.G.G.ChainID, b, appHash)
		if err != nil {
			c.Err(i, "quiet twin", err)
			return
		}
		appHash = res.Commit.Data
		if a, bb := hr.Results[bi].consensusView(), res.consensusView(); a != bb {
			hr.issue("C17", sig, fmt.Sprintf("history %s block %d: the replica that served read-only contract calls differs from the quiet one (%s)", hr.Opts.Name, b.Height, diffFirst(a, bb)))
			hr.Report("C17")
			return
		}
	}
	c.Count("quiet-twin-comparisons", 1)
}
