package main

// Workload generator: state-aware block and transaction generation, a pure function of the PRNG.

import (
	"bytes"
	"fmt"
	"math/big"
	"math/rand"
	"sort"
	"strings"

	"github.com/holiman/uint256"
	rctypes "github.com/rigochain/rigo-go/ctrlers/types"
	abci "github.com/tendermint/tendermint/abci/types"
)

type GenOpts struct {
	NVal             int
	NHolders         int
	NFresh           int
	NReserved        int // funded actors of the directed scenarios; never used by the random filling
	MaxTx            int
	InvalidPct       int // percentage of transactions that are intended-invalid
	W                map[string]int
	Evidence         int // per-mille probability of an evidence item per block
	Absent           int // per-mille probability that a non-anchor validator misses a block
	NoProposer       int // per-mille probability of a proposer-less block
	OddPropose       int // per-mille probability of an unknown proposer
	EVM              bool
	EqualPower       bool
	FundedValidators bool // every genesis validator is also an asset holder
	UnfundedLast     bool // the last genesis validator (of at least two) holds nothing and is never picked by the random generator
	OverLimitGenesis bool // allow more genesis validators than MaxValidatorCnt (C01 quantifies over every genesis)
}

func defaultWeights() map[string]int {
	return map[string]int{"transfer": 30, "setdoc": 4, "stake": 12, "delegate": 12, "unstake": 10, "withdraw": 8,
		"proposal": 5, "vote": 12, "deploy": 0, "call": 0, "xfer2contract": 0, "replay": 4}
}

type Gen struct {
	rng            *rand.Rand
	G              *GenCfg
	O              GenOpts
	Keys           map[string]*Key // by address hex
	All            []*Key
	Fresh          []*Key
	Reserved       []*Key
	reserved       map[string]bool
	seq            int64
	past           []*TxInfo // earlier transactions (for replays)
	Anchor         string
	Contracts      []*contractInfo
	ExtraContracts func() []string // contracts known to the reference EVM (e.g. created by contracts)
	pendingDeploys []*contractInfo
}

type contractInfo struct {
	Addr string
	Kind string
}

func randParams(rng *rand.Rand) DParams {
	p := baseParams()
	p.MaxValidatorCnt = int64(1 + rng.Intn(5))
	p.MinValidatorStake = e18(int64(1 + rng.Intn(20))).String()
	p.LazyRewardBlocks = int64(2 + rng.Intn(5))
	p.LazyApplyingBlocks = int64(rng.Intn(4))
	p.MinVotingPeriodBlocks = 1
	p.MaxVotingPeriodBlocks = int64(3 + rng.Intn(5))
	p.SignedBlocksWindow = int64(4 + rng.Intn(7))
	p.MinSignedBlocks = int64(1 + rng.Intn(4))
	p.SlashRatio = []int64{1, 33, 50, 99, 100}[rng.Intn(5)]
	switch rng.Intn(3) {
	case 0:
		p.GasPrice = "1"
	case 1:
		p.GasPrice = "10"
	default:
		p.GasPrice = "250000000000"
	}
	if rng.Intn(2) == 0 {
		p.MinTrxGas = 4000
	}
	p.MinSelfStakeRatio = int64([]int{0, 10, 50}[rng.Intn(3)])
	p.MaxUpdatableStakeRatio = int64([]int{33, 100}[rng.Intn(2)])
	p.MaxIndividualStakeRatio = int64([]int{33, 50, 100000}[rng.Intn(3)])
	if rng.Intn(3) == 0 {
		p.MinDelegatorStake = e18(2).String()
	}
	if rng.Intn(4) == 0 {
		// a block gas ceiling that ordinary blocks exceed (the properties attach no rule to it)
		p.MaxBlockGas = p.MinTrxGas*uint64(2+rng.Intn(4)) + 1
	}
	return p
}

func NewGen(rng *rand.Rand, seed int64, o GenOpts, p DParams) *Gen {
	g := &Gen{rng: rng, O: o, Keys: map[string]*Key{}}
	cfg := &GenCfg{ChainID: fmt.Sprintf("verif-%d", seed%1000), Params: p}
	minP := minPowerOf(&p)
	for i := 0; i < o.NVal; i++ {
		k := deriveKey(seed, fmt.Sprintf("val%d", i))
		pw := minP + int64(rng.Intn(200))
		if o.EqualPower {
			pw = minP + 50
		}
		if i >= int(p.MaxValidatorCnt) && !o.OverLimitGenesis {
			// by default the genesis validators satisfy the limits: at most MaxValidatorCnt of them
			break
		}
		cfg.Validators = append(cfg.Validators, GenVal{Key: k, Power: pw})
		g.add(k)
	}
	var unfunded string
	if n := len(cfg.Validators); o.UnfundedLast && n >= 2 {
		k := cfg.Validators[n-1].Key
		unfunded = k.A()
		g.All = g.All[:len(g.All)-1] // known by key, never picked as sender or receiver
	}
	g.Anchor = cfg.Validators[0].Key.A()
	// the validators also hold funds so that they can pay fees - except in a quarter of the genesis files, where (as in
	// the file written by the repository's own init command) some validators are not among the asset holders and
	// have no account until somebody pays them. Decided by a PRNG of its own so that the main stream is not shifted.
	pr := rand.New(rand.NewSource(seed*7919 + 13))
	poorGenesis := !o.FundedValidators && pr.Intn(4) == 0
	for i, v := range cfg.Validators {
		if (poorGenesis && i > 0 && pr.Intn(2) == 0) || v.Key.A() == unfunded {
			continue
		}
		cfg.Holders = append(cfg.Holders, GenHolder{Key: v.Key, Balance: e18(int64(50 + rng.Intn(500)))})
	}
	for i := 0; i < o.NHolders; i++ {
		k := deriveKey(seed, fmt.Sprintf("holder%d", i))
		cfg.Holders = append(cfg.Holders, GenHolder{Key: k, Balance: e18(int64(100 + rng.Intn(2000)))})
		g.add(k)
	}
	g.reserved = map[string]bool{}
	for i := 0; i < o.NReserved; i++ {
		k := deriveKey(seed, fmt.Sprintf("reserved%d", i))
		cfg.Holders = append(cfg.Holders, GenHolder{Key: k, Balance: e18(int64(3000 + rng.Intn(1000)))})
		g.Reserved = append(g.Reserved, k)
		g.reserved[k.A()] = true
		g.Keys[k.A()] = k
	}
	for i := 0; i < o.NFresh; i++ {
		k := deriveKey(seed, fmt.Sprintf("fresh%d", i))
		g.Fresh = append(g.Fresh, k)
		g.add(k)
	}
	g.G = cfg
	return g
}

func (g *Gen) add(k *Key) {
	g.Keys[k.A()] = k
	g.All = append(g.All, k)
}

func (g *Gen) pick(ks []*Key) *Key { return ks[g.rng.Intn(len(ks))] }

func sortedKeys[T any](m map[string]T) []string {
	var ks []string
	for k := range m {
		ks = append(ks, k)
	}
	sort.Strings(ks)
	return ks
}

// funded returns keys whose shadow balance covers at least the minimum fee.
func (g *Gen) funded(sh *MState, min *big.Int) []*Key {
	var out []*Key
	for _, k := range g.All {
		if a := sh.Accounts[k.A()]; a != nil && a.Bal.Cmp(min) >= 0 {
			out = append(out, k)
		}
	}
	return out
}

func (g *Gen) gasFor(p *DParams, typ int32) uint64 {
	gas := p.MinTrxGas
	switch g.rng.Intn(4) {
	case 0:
		gas += uint64(g.rng.Intn(50))
	case 1:
		gas += 1
	}
	return gas
}

type txDraft struct {
	tx    *rctypes.Trx
	key   *Key   // signer
	chain string // chain id used for signing
	label string
	ok    bool
	post  func(raw []byte) []byte // mutate the wire bytes after signing
	sigOK bool
}

func (g *Gen) finish(d *txDraft) *TxInfo {
	if d.chain == "" {
		d.chain = g.G.ChainID
	}
	raw := signTx(d.tx, d.key, d.chain)
	if d.post != nil {
		raw = d.post(raw)
	}
	ti := &TxInfo{Tx: d.tx, Raw: raw, Hash: hx(sha256sum(raw)), Label: d.label, Pub: d.key.Pub, Intend: d.ok, SigOK: d.sigOK}
	return ti
}

var bigMax256 = new(big.Int).Sub(two256, big.NewInt(1))

// NextBlock builds block h on top of the observed state pre.
func (g *Gen) NextBlock(h int64, tm int64, pre *MState, sim *TMSim, lastVals []*MDeleg, shadowModel *Model) (*BlockSpec, []*TxInfo) {
	P := pre.Params
	price := bigDec(P.GasPrice)
	b := &BlockSpec{Height: h, Time: tm}
	cur := sim.SetAt(h)
	// proposer
	switch r := g.rng.Intn(1000); {
	case r < g.O.NoProposer:
	case r < g.O.NoProposer+g.O.OddPropose:
		b.Proposer = g.pick(g.Fresh).Addr
	default:
		if len(cur) > 0 {
			b.Proposer = cur[g.rng.Intn(len(cur))].Addr
		}
	}
	// last commit
	if h > 1 {
		for _, v := range sim.SetAt(h - 1) {
			signed := true
			if hx(v.Addr) != g.Anchor && g.rng.Intn(1000) < g.O.Absent {
				signed = false
			}
			b.Votes = append(b.Votes, VoteSpec{Addr: v.Addr, Power: v.Power, Signed: signed})
		}
	}
	// evidence
	for n := 0; n < 2; n++ {
		if g.rng.Intn(1000) >= g.O.Evidence {
			continue
		}
		var cands [][]byte
		for _, v := range cur {
			if hx(v.Addr) != g.Anchor {
				cands = append(cands, v.Addr)
			}
		}
		for _, k := range sortedKeys(pre.Delegatees) {
			if k != g.Anchor {
				cands = append(cands, addrBytes(k))
			}
		}
		cands = append(cands, g.pick(g.Fresh).Addr)
		a := cands[g.rng.Intn(len(cands))]
		pw := int64(0)
		if d := pre.Delegatees[hx(a)]; d != nil {
			pw = d.Total
		}
		b.Evidence = append(b.Evidence, EvSpec{Addr: a, Power: pw, Height: h - 1})
		if g.rng.Intn(4) == 0 {
			b.Evidence = append(b.Evidence, EvSpec{Addr: a, Power: pw, Height: h - 1}) // duplicate
		}
	}

	// transactions against a shadow of the state
	sh := pre.clone()
	ntx := 0
	if g.O.MaxTx > 0 {
		ntx = g.rng.Intn(g.O.MaxTx + 1)
	}
	var txs []*TxInfo
	minFee := new(big.Int).Mul(new(big.Int).SetUint64(P.MinTrxGas+60), price)
	var wkeys []string
	total := 0
	for _, k := range sortedKeys(g.O.W) {
		if g.O.W[k] > 0 {
			wkeys = append(wkeys, k)
			total += g.O.W[k]
		}
	}
	for i := 0; i < ntx && total > 0; i++ {
		r := g.rng.Intn(total)
		kind := ""
		for _, k := range wkeys {
			if r < g.O.W[k] {
				kind = k
				break
			}
			r -= g.O.W[k]
		}
		invalid := g.rng.Intn(100) < g.O.InvalidPct
		d := g.draft(kind, invalid, h, sh, &P, price, minFee, lastVals)
		if d == nil {
			continue
		}
		ti := g.finish(d)
		if kind == "replay" {
			// replays reuse earlier bytes verbatim
			if len(g.past) == 0 && len(txs) == 0 {
				continue
			}
			if len(g.past) == 0 {
				g.past = append(g.past, txs[0])
			}
			old := g.past[g.rng.Intn(len(g.past))]
			if len(txs) > 0 && g.rng.Intn(2) == 0 {
				old = txs[g.rng.Intn(len(txs))] // a duplicate inside the same block
			}
			ti = &TxInfo{Tx: old.Tx, Raw: old.Raw, Hash: old.Hash, Label: "invalid:replay-of(" + strings.TrimPrefix(old.Label, "invalid:replay-of") + ")", Pub: old.Pub, SigOK: old.SigOK}
		}
		txs = append(txs, ti)
		b.Txs = append(b.Txs, ti.Raw)
		// optimistic shadow effect
		if ti.Intend && ti.Tx != nil {
			g.shadowApply(shadowModel, sh, ti, h, &P, price, lastVals)
		}
	}
	g.past = append(g.past, txs...)
	if len(g.past) > 200 {
		g.past = g.past[len(g.past)-200:]
	}
	return b, txs
}

func (g *Gen) shadowApply(m *Model, sh *MState, ti *TxInfo, h int64, P *DParams, price *big.Int, lastVals []*MDeleg) {
	isEVM := ti.Tx.Type == rctypes.TRX_CONTRACT
	if ti.Tx.Type == rctypes.TRX_TRANSFER {
		if ra := sh.Accounts[hx(ti.Tx.To)]; ra != nil && ra.Code != "" {
			isEVM = true
		}
	}
	if isEVM {
		if a := sh.Accounts[hx(ti.Tx.From)]; a != nil {
			a.Nonce++
			fee := new(big.Int).Mul(new(big.Int).SetUint64(ti.Tx.Gas), price)
			a.Bal.Sub(a.Bal, fee)
			a.Bal.Sub(a.Bal, ti.Tx.Amount.ToBig())
			if a.Bal.Sign() < 0 {
				a.Bal.SetInt64(0)
			}
		}
		return
	}
	out := &stepOut{Burned: new(big.Int), Minted: new(big.Int), Ambiguous: map[string]bool{}}
	resp := &abci.ResponseDeliverTx{Code: 0, GasWanted: int64(ti.Tx.Gas), GasUsed: int64(ti.Tx.Gas)}
	m.applyTx(sh, ti, resp, h, P, price, lastVals, new(big.Int), out, 0)
}

func u256big(b *big.Int) *uint256.Int {
	v, over := uint256.FromBig(b)
	if over {
		return new(uint256.Int).SetAllOne()
	}
	return v
}

func (g *Gen) anyAddr(sh *MState) []byte {
	switch g.rng.Intn(6) {
	case 0:
		return g.pick(g.Fresh).Addr
	case 1:
		return zeroAddr
	default:
		return g.pick(g.All).Addr
	}
}

func (g *Gen) govOption() string {
	fields := []func() string{
		func() string { return fmt.Sprintf(`"slashRatio":"%d"`, []int{1, 10, 33, 50, 77, 100}[g.rng.Intn(6)]) },
		func() string { return fmt.Sprintf(`"lazyRewardBlocks":"%d"`, 1+g.rng.Intn(8)) },
		func() string { return fmt.Sprintf(`"maxValidatorCnt":"%d"`, 1+g.rng.Intn(6)) },
		func() string { return fmt.Sprintf(`"minValidatorStake":"%s"`, e18(int64(1+g.rng.Intn(30)))) },
		func() string { return fmt.Sprintf(`"rewardPerPower":"%d"`, 1+g.rng.Intn(4000000000)) },
		func() string {
			return fmt.Sprintf(`"gasPrice":"%d"`, []int64{1, 5, 10, 20, 250000000000}[g.rng.Intn(5)])
		},
		func() string { return fmt.Sprintf(`"minTrxGas":"%d"`, []int{5, 10, 100, 4000}[g.rng.Intn(4)]) },
		func() string { return fmt.Sprintf(`"signedBlocksWindow":"%d"`, 3+g.rng.Intn(10)) },
		func() string { return fmt.Sprintf(`"minSignedBlocks":"%d"`, 1+g.rng.Intn(4)) },
		func() string { return fmt.Sprintf(`"lazyApplyingBlocks":"%d"`, 1+g.rng.Intn(4)) },
		func() string { return fmt.Sprintf(`"maxVotingPeriodBlocks":"%d"`, 3+g.rng.Intn(8)) },
		func() string { return fmt.Sprintf(`"minSelfStakeRatio":"%d"`, 1+g.rng.Intn(60)) },
		func() string { return fmt.Sprintf(`"version":"%d"`, 2+g.rng.Intn(5)) },
	}
	n := 1 + g.rng.Intn(3)
	perm := g.rng.Perm(len(fields))[:n]
	var parts []string
	for _, i := range perm {
		parts = append(parts, fields[i]())
	}
	return "{" + strings.Join(parts, ",") + "}"
}

// draft builds one transaction of the requested kind (valid or with one defect).
func (g *Gen) draft(kind string, invalid bool, h int64, sh *MState, P *DParams, price, minFee *big.Int, lastVals []*MDeleg) *txDraft {
	g.seq++
	tm := h*1_000_000 + g.seq
	fund := g.funded(sh, minFee)
	if len(fund) == 0 {
		return nil
	}
	mk := func(typ int32, k *Key, to []byte, amt *big.Int, pl rctypes.ITrxPayload, label string) *txDraft {
		a := sh.Accounts[k.A()]
		nonce := uint64(0)
		if a != nil {
			nonce = a.Nonce
		}
		gas := g.gasFor(P, typ)
		if typ != rctypes.TRX_CONTRACT && a != nil && g.rng.Intn(10) == 0 {
			// a generous gas limit (log-uniform up to 2^34) when the sender can pay for it: fees beyond 2^64 units occur
			wide := P.MinTrxGas + uint64(1)<<uint(g.rng.Intn(35)) + uint64(g.rng.Intn(1000))
			fee := new(big.Int).Mul(new(big.Int).SetUint64(wide), price)
			if new(big.Int).Add(new(big.Int).Mul(fee, big.NewInt(2)), amt).Cmp(a.Bal) < 0 && wide <= P.MaxTrxGas {
				gas = wide
			}
		}
		tx := mkTx(typ, k.Addr, to, nonce, gas, u256big(price), u256big(amt), pl, tm)
		return &txDraft{tx: tx, key: k, label: label, ok: true, sigOK: true}
	}
	var d *txDraft
	switch kind {
	case "transfer", "replay":
		k := g.pick(fund)
		bal := sh.Accounts[k.A()].Bal
		var amt *big.Int
		switch g.rng.Intn(6) {
		case 0:
			amt = new(big.Int)
		case 1:
			amt = new(big.Int).Sub(bal, minFee) // (almost) everything
			if amt.Sign() < 0 {
				amt = new(big.Int)
			}
		default:
			amt = new(big.Int).Rand(g.rng, new(big.Int).Div(new(big.Int).Add(bal, big.NewInt(3)), big.NewInt(3)))
		}
		d = mk(rctypes.TRX_TRANSFER, k, g.anyAddr(sh), amt, nil, "transfer")
		fee := new(big.Int).Mul(new(big.Int).SetUint64(d.tx.Gas), price)
		if new(big.Int).Add(amt, fee).Cmp(bal) > 0 {
			d.tx.Amount = u256big(new(big.Int))
		}
		if ra := sh.Accounts[hx(d.tx.To)]; ra != nil && ra.Code != "" && !g.O.EVM {
			d.tx.To = g.pick(g.Fresh).Addr
		}
	case "setdoc":
		k := g.pick(fund)
		n := g.rng.Intn(40)
		if g.rng.Intn(10) == 0 {
			n = 2048
		}
		d = mk(rctypes.TRX_SETDOC, k, g.anyAddr(sh), new(big.Int), &rctypes.TrxPayloadSetDoc{Name: strings.Repeat("n", n), URL: fmt.Sprintf("https://x/%d", g.seq)}, "setdoc")
	case "stake":
		// self-staking: become or grow a delegatee
		k := g.pick(fund)
		bal := sh.Accounts[k.A()].Bal
		minP := minPowerOf(P)
		units := minP + int64(g.rng.Intn(30))
		if dg := sh.Delegatees[k.A()]; dg != nil {
			units = int64(1 + g.rng.Intn(20))
		}
		amt := e18(units)
		if new(big.Int).Add(amt, minFee).Cmp(bal) > 0 {
			return nil
		}
		d = mk(rctypes.TRX_STAKING, k, k.Addr, amt, nil, "stake-self")
	case "delegate":
		var dks []string
		for _, dk := range sortedKeys(sh.Delegatees) {
			if !g.reserved[dk] {
				dks = append(dks, dk)
			}
		}
		if len(dks) == 0 {
			return nil
		}
		to := dks[g.rng.Intn(len(dks))]
		k := g.pick(fund)
		if k.A() == to {
			return nil
		}
		bal := sh.Accounts[k.A()].Bal
		units := int64(1 + g.rng.Intn(15))
		if md := new(big.Int).Div(bigDec(P.MinDelegatorStake), big1e18).Int64(); units < md {
			units = md
		}
		amt := e18(units)
		if new(big.Int).Add(amt, minFee).Cmp(bal) > 0 {
			return nil
		}
		d = mk(rctypes.TRX_STAKING, k, addrBytes(to), amt, nil, "delegate")
	case "unstake":
		type cand struct {
			to string
			s  *MStake
		}
		var cs []cand
		for _, dk := range sortedKeys(sh.Delegatees) {
			for _, s := range sh.Delegatees[dk].Stakes {
				if g.Keys[s.Owner] != nil && !g.reserved[s.Owner] {
					if s.Owner == g.Anchor && s.To == g.Anchor {
						continue // the anchor validator keeps its own stake: the set never becomes empty
					}
					cs = append(cs, cand{dk, s})
				}
			}
		}
		if len(cs) == 0 {
			return nil
		}
		c := cs[g.rng.Intn(len(cs))]
		k := g.Keys[c.s.Owner]
		if a := sh.Accounts[k.A()]; a == nil || a.Bal.Cmp(minFee) < 0 {
			return nil
		}
		d = mk(rctypes.TRX_UNSTAKING, k, addrBytes(c.to), new(big.Int), &rctypes.TrxPayloadUnstaking{TxHash: addrBytes(c.s.TxHash)}, "unstake")
	case "withdraw":
		var cs []string
		for _, rk := range sortedKeys(sh.Rewards) {
			if g.Keys[rk] != nil && !g.reserved[rk] && sh.Rewards[rk].Cumulated.Sign() > 0 {
				cs = append(cs, rk)
			}
		}
		if len(cs) == 0 {
			return nil
		}
		k := g.Keys[cs[g.rng.Intn(len(cs))]]
		if a := sh.Accounts[k.A()]; a == nil || a.Bal.Cmp(minFee) < 0 {
			return nil
		}
		cum := sh.Rewards[k.A()].Cumulated
		var req *big.Int
		switch g.rng.Intn(4) {
		case 0:
			req = new(big.Int)
		case 1:
			req = new(big.Int).Set(cum)
		default:
			req = new(big.Int).Rand(g.rng, new(big.Int).Add(cum, big.NewInt(1)))
		}
		d = mk(rctypes.TRX_WITHDRAW, k, g.anyAddr(sh), new(big.Int), &rctypes.TrxPayloadWithdraw{ReqAmt: u256big(req)}, "withdraw")
	case "proposal":
		var vs []*Key
		for _, v := range lastVals {
			if k := g.Keys[v.Addr]; k != nil {
				if a := sh.Accounts[k.A()]; a != nil && a.Bal.Cmp(minFee) >= 0 {
					vs = append(vs, k)
				}
			}
		}
		if len(vs) == 0 {
			return nil
		}
		k := g.pick(vs)
		start := h + 1 + int64(g.rng.Intn(3))
		period := P.MinVotingPeriodBlocks
		if P.MaxVotingPeriodBlocks > P.MinVotingPeriodBlocks {
			period += int64(g.rng.Intn(int(P.MaxVotingPeriodBlocks-P.MinVotingPeriodBlocks) + 1))
		}
		if period > 6 {
			period = P.MinVotingPeriodBlocks + int64(g.rng.Intn(4))
		}
		applying := start + period + P.LazyApplyingBlocks + int64(g.rng.Intn(3))
		nopt := 1 + g.rng.Intn(3)
		var opts [][]byte
		for i := 0; i < nopt; i++ {
			opts = append(opts, []byte(g.govOption()))
		}
		d = mk(rctypes.TRX_PROPOSAL, k, zeroAddr, new(big.Int), &rctypes.TrxPayloadProposal{Message: fmt.Sprintf("p%d", g.seq),
			StartVotingHeight: start, VotingPeriodBlocks: period, ApplyingHeight: applying, OptType: optGovParams, Options: opts}, "proposal")
	case "vote":
		type cand struct {
			p *MProposal
			v string
		}
		var cs []cand
		for _, pk := range sortedKeys(sh.Proposals) {
			p := sh.Proposals[pk]
			if h < p.Start || h > p.End {
				continue
			}
			for _, vk := range sortedKeys(p.Voters) {
				if k := g.Keys[vk]; k != nil {
					if a := sh.Accounts[vk]; a != nil && a.Bal.Cmp(minFee) >= 0 {
						cs = append(cs, cand{p, vk})
					}
				}
			}
		}
		if len(cs) == 0 {
			return nil
		}
		c := cs[g.rng.Intn(len(cs))]
		choice := int32(0)
		if g.rng.Intn(3) == 0 {
			choice = int32(g.rng.Intn(len(c.p.Options)))
		}
		d = mk(rctypes.TRX_VOTING, g.Keys[c.v], zeroAddr, new(big.Int), &rctypes.TrxPayloadVoting{TxHash: addrBytes(c.p.TxHash), Choice: choice}, "vote")
	case "deploy", "call", "xfer2contract":
		d = g.draftEVM(kind, h, sh, P, price, fund, mk)
		if d == nil {
			return nil
		}
	default:
		return nil
	}
	if invalid || kind == "replay" {
		g.spoil(d, h, sh, P, price, lastVals)
	}
	return d
}

// spoil injects exactly one defect into a draft.
func (g *Gen) spoil(d *txDraft, h int64, sh *MState, P *DParams, price *big.Int, lastVals []*MDeleg) {
	d.ok = false
	type sp struct {
		name string
		fn   func() bool
	}
	other := func() *Key {
		for i := 0; i < 10; i++ {
			k := g.pick(g.All)
			if k.A() != d.key.A() {
				return k
			}
		}
		return g.Fresh[0]
	}
	common := []sp{
		{"nonce+1", func() bool { d.tx.Nonce++; return true }},
		{"nonce-1", func() bool {
			if d.tx.Nonce == 0 {
				return false
			}
			d.tx.Nonce--
			return true
		}},
		{"nonce-far", func() bool { d.tx.Nonce += 1000; return true }},
		{"bad-sig", func() bool {
			d.sigOK = false
			d.post = func(raw []byte) []byte {
				tx := &rctypes.Trx{}
				if tx.Decode(raw) != nil || len(tx.Sig) < 10 {
					return raw
				}
				tx.Sig[5] ^= 0x40
				bz, _ := tx.Encode()
				return bz
			}
			return true
		}},
		{"foreign-signer", func() bool { d.key = other(); d.sigOK = false; return true }},
		{"other-chain", func() bool { d.chain = g.G.ChainID + "x"; d.sigOK = false; return true }},
		{"gas-below-min", func() bool {
			if P.MinTrxGas == 0 {
				return false
			}
			d.tx.Gas = P.MinTrxGas - 1
			return true
		}},
		{"gas-zero", func() bool {
			if P.MinTrxGas == 0 {
				return false
			}
			d.tx.Gas = 0
			return true
		}},
		{"price+1", func() bool { d.tx.GasPrice = u256big(new(big.Int).Add(price, big.NewInt(1))); return true }},
		{"price-1", func() bool {
			if price.Sign() == 0 {
				return false
			}
			d.tx.GasPrice = u256big(new(big.Int).Sub(price, big.NewInt(1)))
			return true
		}},
		{"price-zero", func() bool {
			if price.Sign() == 0 {
				return false
			}
			d.tx.GasPrice = new(uint256.Int)
			return true
		}},
		{"amount-over-balance", func() bool {
			a := sh.Accounts[d.key.A()]
			if a == nil || d.tx.Type == rctypes.TRX_WITHDRAW {
				return false
			}
			d.tx.Amount = u256big(new(big.Int).Add(a.Bal, big.NewInt(1)))
			if d.tx.Type == rctypes.TRX_STAKING {
				q := new(big.Int).Div(a.Bal, big1e18)
				d.tx.Amount = u256big(new(big.Int).Mul(new(big.Int).Add(q, big.NewInt(1)), big1e18))
			}
			return true
		}},
		{"amount-fits-but-not-the-fee", func() bool {
			// amount <= balance < amount + fee: everything is affordable except the fee on top
			a := sh.Accounts[d.key.A()]
			if a == nil || (d.tx.Type != rctypes.TRX_TRANSFER && d.tx.Type != rctypes.TRX_STAKING) || price.Sign() == 0 {
				return false
			}
			amt := new(big.Int).Set(a.Bal)
			if d.tx.Type == rctypes.TRX_STAKING {
				amt.Mul(new(big.Int).Div(a.Bal, big1e18), big1e18)
				if amt.Sign() == 0 {
					return false
				}
			} else if g.rng.Intn(2) == 0 {
				amt.Sub(amt, big.NewInt(int64(g.rng.Intn(1000))))
				if amt.Sign() < 0 {
					return false
				}
			}
			rest := new(big.Int).Sub(a.Bal, amt)
			gas := new(big.Int).Add(new(big.Int).Div(rest, price), big.NewInt(1))
			if !gas.IsUint64() || gas.Uint64() > P.MaxTrxGas || gas.Uint64() > 1<<62 {
				return false
			}
			if gas.Uint64() < d.tx.Gas {
				gas.SetUint64(d.tx.Gas)
			}
			d.tx.Gas = gas.Uint64()
			d.tx.Amount = u256big(amt)
			if g.rng.Intn(2) == 0 {
				d.tx.To = d.tx.From // self-transfer / self-stake: sender and receiver are the same record
			}
			return true
		}},
		{"amount-2^256-1", func() bool {
			if d.tx.Type == rctypes.TRX_WITHDRAW {
				return false
			}
			d.tx.Amount = new(uint256.Int).SetAllOne()
			return true
		}},
		{"amount-2^255", func() bool {
			if d.tx.Type == rctypes.TRX_WITHDRAW {
				return false
			}
			d.tx.Amount = u256big(new(big.Int).Lsh(big.NewInt(1), 255))
			return true
		}},
		{"unfunded-sender", func() bool {
			k := g.pick(g.Fresh)
			if a := sh.Accounts[k.A()]; a != nil && a.Bal.Sign() > 0 {
				return false
			}
			d.key = k
			d.tx.From = k.Addr
			d.tx.Nonce = 0
			return true
		}},
	}
	var specific []sp
	switch d.tx.Type {
	case rctypes.TRX_STAKING:
		specific = []sp{
			{"stake-not-multiple", func() bool {
				d.tx.Amount = u256big(new(big.Int).Add(d.tx.Amount.ToBig(), big.NewInt(1+int64(g.rng.Intn(1000)))))
				return true
			}},
			{"stake-below-unit", func() bool { d.tx.Amount = u256big(big.NewInt(999999)); return true }},
			{"delegate-to-nobody", func() bool {
				k := g.pick(g.Fresh)
				if sh.Delegatees[k.A()] != nil || k.A() == d.key.A() {
					return false
				}
				d.tx.To = k.Addr
				return true
			}},
		}
	case rctypes.TRX_UNSTAKING:
		specific = []sp{
			{"unstake-by-non-owner", func() bool {
				k := other()
				a := sh.Accounts[k.A()]
				if a == nil || a.Bal.Sign() == 0 {
					return false
				}
				d.key = k
				d.tx.From = k.Addr
				d.tx.Nonce = a.Nonce
				return true
			}},
			{"unstake-by-delegatee", func() bool {
				k := g.Keys[hx(d.tx.To)]
				if k == nil || k.A() == d.key.A() {
					return false
				}
				a := sh.Accounts[k.A()]
				if a == nil || a.Bal.Sign() == 0 {
					return false
				}
				d.key = k
				d.tx.From = k.Addr
				d.tx.Nonce = a.Nonce
				return true
			}},
			{"unstake-unknown-hash", func() bool {
				d.tx.Payload = &rctypes.TrxPayloadUnstaking{TxHash: sha256sum([]byte(fmt.Sprint(g.seq)))}
				return true
			}},
			{"unstake-short-hash", func() bool {
				pl := d.tx.Payload.(*rctypes.TrxPayloadUnstaking)
				d.tx.Payload = &rctypes.TrxPayloadUnstaking{TxHash: pl.TxHash[:20]}
				return true
			}},
			{"unstake-wrong-delegatee", func() bool {
				for _, dk := range sortedKeys(sh.Delegatees) {
					if dk != hx(d.tx.To) {
						d.tx.To = addrBytes(dk)
						return true
					}
				}
				return false
			}},
		}
	case rctypes.TRX_WITHDRAW:
		specific = []sp{
			{"withdraw-excess", func() bool {
				r := sh.Rewards[d.key.A()]
				if r == nil {
					return false
				}
				d.tx.Payload = &rctypes.TrxPayloadWithdraw{ReqAmt: u256big(new(big.Int).Add(r.Cumulated, big.NewInt(1)))}
				return true
			}},
			{"withdraw-huge", func() bool {
				d.tx.Payload = &rctypes.TrxPayloadWithdraw{ReqAmt: new(uint256.Int).SetAllOne()}
				return true
			}},
			{"withdraw-with-amount", func() bool { d.tx.Amount = u256(1); return true }},
			{"withdraw-no-reward", func() bool {
				for _, k := range g.All {
					if sh.Rewards[k.A()] == nil {
						if a := sh.Accounts[k.A()]; a != nil && a.Bal.Sign() > 0 {
							d.key, d.tx.From, d.tx.Nonce = k, k.Addr, a.Nonce
							return true
						}
					}
				}
				return false
			}},
		}
	case rctypes.TRX_PROPOSAL:
		pl := d.tx.Payload.(*rctypes.TrxPayloadProposal)
		cp := *pl
		specific = []sp{
			{"proposal-by-non-validator", func() bool {
				for _, k := range g.All {
					isV := false
					for _, v := range lastVals {
						if v.Addr == k.A() {
							isV = true
						}
					}
					if a := sh.Accounts[k.A()]; !isV && a != nil && a.Bal.Sign() > 0 && sh.Delegatees[k.A()] == nil {
						d.key, d.tx.From, d.tx.Nonce = k, k.Addr, a.Nonce
						return true
					}
				}
				return false
			}},
			{"proposal-start-now", func() bool { cp.StartVotingHeight = h; d.tx.Payload = &cp; return true }},
			{"proposal-start-past", func() bool { cp.StartVotingHeight = h - 1; d.tx.Payload = &cp; return true }},
			{"proposal-period-too-long", func() bool {
				cp.VotingPeriodBlocks = P.MaxVotingPeriodBlocks + 1
				cp.ApplyingHeight += P.MaxVotingPeriodBlocks + 1
				d.tx.Payload = &cp
				return true
			}},
			{"proposal-period-zero", func() bool {
				if P.MinVotingPeriodBlocks <= 0 {
					return false
				}
				cp.VotingPeriodBlocks = 0
				d.tx.Payload = &cp
				return true
			}},
			{"proposal-applying-early", func() bool {
				if P.LazyApplyingBlocks == 0 {
					return false
				}
				cp.ApplyingHeight = cp.StartVotingHeight + cp.VotingPeriodBlocks + P.LazyApplyingBlocks - 1
				d.tx.Payload = &cp
				return true
			}},
			{"proposal-no-options", func() bool { cp.Options = nil; d.tx.Payload = &cp; return true }},
			{"proposal-unparsable-option", func() bool { cp.Options = [][]byte{[]byte(`{"slashRatio":`)}; d.tx.Payload = &cp; return true }},
			{"proposal-to-nonzero", func() bool { d.tx.To = g.pick(g.All).Addr; return true }},
			{"proposal-overflow-heights", func() bool {
				cp.StartVotingHeight = 1<<63 - 2
				cp.ApplyingHeight = 1<<63 - 1
				d.tx.Payload = &cp
				return true
			}},
		}
	case rctypes.TRX_VOTING:
		pl := d.tx.Payload.(*rctypes.TrxPayloadVoting)
		cp := *pl
		specific = []sp{
			{"vote-by-outsider", func() bool {
				p := sh.Proposals[hx(pl.TxHash)]
				for _, k := range g.All {
					if a := sh.Accounts[k.A()]; p != nil && p.Voters[k.A()] == nil && a != nil && a.Bal.Sign() > 0 {
						d.key, d.tx.From, d.tx.Nonce = k, k.Addr, a.Nonce
						return true
					}
				}
				return false
			}},
			{"vote-choice-out-of-range", func() bool { cp.Choice = 99; d.tx.Payload = &cp; return true }},
			{"vote-choice-negative", func() bool { cp.Choice = -2; d.tx.Payload = &cp; return true }},
			{"vote-unknown-proposal", func() bool { cp.TxHash = sha256sum([]byte(fmt.Sprint("np", g.seq))); d.tx.Payload = &cp; return true }},
			{"vote-outside-window", func() bool {
				for _, pk := range sortedKeys(sh.Proposals) {
					p := sh.Proposals[pk]
					if (h < p.Start || h > p.End) && p.Voters[d.key.A()] != nil {
						cp.TxHash = addrBytes(pk)
						cp.Choice = 0
						d.tx.Payload = &cp
						return true
					}
				}
				return false
			}},
			{"vote-to-nonzero", func() bool { d.tx.To = g.pick(g.All).Addr; return true }},
			{"vote-reference-concat", func() bool {
				// 64-byte reference: a proposal that is not open for this voter, followed by the open one
				for _, pk := range sortedKeys(sh.Proposals) {
					p := sh.Proposals[pk]
					if pk != hx(pl.TxHash) && (h < p.Start || h > p.End || p.Voters[d.key.A()] == nil) {
						cp.TxHash = append(append([]byte{}, addrBytes(pk)...), pl.TxHash...)
						d.tx.Payload = &cp
						return true
					}
				}
				return false
			}},
			{"vote-reference-with-junk-prefix", func() bool {
				cp.TxHash = append(sha256sum([]byte(fmt.Sprint("jp", g.seq))), pl.TxHash...)
				d.tx.Payload = &cp
				return true
			}},
		}
	case rctypes.TRX_SETDOC:
		specific = []sp{
			{"setdoc-name-too-long", func() bool {
				d.tx.Payload = &rctypes.TrxPayloadSetDoc{Name: strings.Repeat("x", 2049), URL: "u"}
				return true
			}},
			{"setdoc-url-too-long", func() bool {
				d.tx.Payload = &rctypes.TrxPayloadSetDoc{Name: "n", URL: strings.Repeat("y", 5000)}
				return true
			}},
		}
	}
	all := common
	if len(specific) > 0 && g.rng.Intn(2) == 0 {
		all = specific
	}
	for tries := 0; tries < 8; tries++ {
		s := all[g.rng.Intn(len(all))]
		if s.fn() {
			d.label = "invalid:" + s.name + "(" + d.label + ")"
			return
		}
		all = append(append([]sp{}, common...), specific...)
	}
	// fall back: nonce
	d.tx.Nonce += 7
	d.label = "invalid:nonce+7(" + d.label + ")"
}

func bytesEq(a, b []byte) bool { return bytes.Equal(a, b) }
