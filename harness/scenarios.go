package main

// Directed scenarios: scripted skeletons laid over the random filling of a history. They make
// sure that the shapes named in the properties are reached in every run, not just sometimes.

import (
	"fmt"
	"math/big"

	"github.com/holiman/uint256"
	rctypes "github.com/rigochain/rigo-go/ctrlers/types"
)

type scenCtx struct {
	hr    *HistRun
	h     int64
	pre   *MState
	b     *BlockSpec
	txs   []*TxInfo
	added map[string]uint64 // extra nonce offsets of scripted txs in this block
}

func (sc *scenCtx) nonce(k *Key) uint64 {
	n := uint64(0)
	if a := sc.pre.Accounts[k.A()]; a != nil {
		n = a.Nonce
	}
	for _, t := range sc.txs {
		if t.Tx != nil && t.Intend && hx(t.Tx.From) == k.A() {
			n++
		}
	}
	return n
}

func (sc *scenCtx) add(k *Key, typ int32, to []byte, amt *big.Int, pl rctypes.ITrxPayload, label string, mut func(tx *rctypes.Trx)) *TxInfo {
	P := sc.pre.Params
	price := bigDec(P.GasPrice)
	tx := mkTx(typ, k.Addr, to, sc.nonce(k), P.MinTrxGas+1, u256big(price), u256big(amt), pl, sc.h*1_000_000+900_000+int64(len(sc.txs)))
	if mut != nil {
		mut(tx)
	}
	raw := signTx(tx, k, sc.hr.G.G.ChainID)
	ti := &TxInfo{Tx: tx, Raw: raw, Hash: hx(sha256sum(raw)), Label: "scenario:" + label, Pub: k.Pub, SigOK: true, Intend: true}
	sc.txs = append(sc.txs, ti)
	sc.b.Txs = append(sc.b.Txs, raw)
	return ti
}

type scenario struct {
	name  string
	start int64
	step  func(sc *scenCtx, rel int64) // rel = h - start
	state map[string]interface{}
}

// withScenarios wires scenarios into a history.
func withScenarios(o *HistOpts, scens ...*scenario) {
	o.Script = func(hr *HistRun, h int64, b *BlockSpec, txs []*TxInfo) (*BlockSpec, []*TxInfo) {
		sc := &scenCtx{hr: hr, h: h, pre: hr.M.Hist[h-1], b: b, txs: txs}
		for _, s := range scens {
			if h >= s.start {
				s.step(sc, h-s.start)
			}
		}
		return sc.b, sc.txs
	}
}

func reservedKey(hr *HistRun, i int) *Key {
	if i < len(hr.G.Reserved) {
		return hr.G.Reserved[i]
	}
	return nil
}

// exit-and-restake: a delegatee unbonds everything and is re-created twice inside one block.
func scenExitRestake(start int64) *scenario {
	s := &scenario{name: "exit-and-restake", start: start, state: map[string]interface{}{}}
	s.step = func(sc *scenCtx, rel int64) {
		v, d := reservedKey(sc.hr, 0), reservedKey(sc.hr, 1)
		if v == nil || d == nil {
			return
		}
		minP := minPowerOf(&sc.pre.Params)
		switch rel {
		case 0:
			ti := sc.add(v, rctypes.TRX_STAKING, v.Addr, e18(minP+3), nil, "stake-self", nil)
			s.state["stake"] = ti.Hash
		case 2:
			dg := sc.pre.Delegatees[v.A()]
			if dg == nil {
				return
			}
			for _, st := range dg.Stakes {
				if st.Owner == v.A() {
					sc.add(v, rctypes.TRX_UNSTAKING, v.Addr, new(big.Int), &rctypes.TrxPayloadUnstaking{TxHash: addrBytes(st.TxHash)}, "unstake-everything", nil)
				}
			}
			sc.add(v, rctypes.TRX_STAKING, v.Addr, e18(minP+5), nil, "restake-1", nil)
			sc.add(v, rctypes.TRX_STAKING, v.Addr, e18(minP+7), nil, "restake-2", nil)
			sc.add(d, rctypes.TRX_STAKING, v.Addr, e18(2+new(big.Int).Div(bigDec(sc.pre.Params.MinDelegatorStake), big1e18).Int64()), nil, "delegate-to-recreated", nil)
			sc.hr.C.Count("scenario.exit-and-restake", 1)
		}
	}
	return s
}

// forced release: delegators are released when the validator withdraws its own stake.
func scenForcedRelease(start int64) *scenario {
	s := &scenario{name: "forced-release", start: start}
	s.step = func(sc *scenCtx, rel int64) {
		v, d := reservedKey(sc.hr, 2), reservedKey(sc.hr, 3)
		if v == nil || d == nil {
			return
		}
		minP := minPowerOf(&sc.pre.Params)
		md := new(big.Int).Div(bigDec(sc.pre.Params.MinDelegatorStake), big1e18).Int64()
		switch rel {
		case 0:
			sc.add(v, rctypes.TRX_STAKING, v.Addr, e18(minP+20), nil, "stake-self", nil)
		case 1:
			sc.add(d, rctypes.TRX_STAKING, v.Addr, e18(2+md), nil, "delegate-a", nil)
			sc.add(d, rctypes.TRX_STAKING, v.Addr, e18(3+md), nil, "delegate-b", nil)
		case 3:
			dg := sc.pre.Delegatees[v.A()]
			if dg == nil {
				return
			}
			for _, st := range dg.Stakes {
				if st.Owner == v.A() {
					sc.add(v, rctypes.TRX_UNSTAKING, v.Addr, new(big.Int), &rctypes.TrxPayloadUnstaking{TxHash: addrBytes(st.TxHash)}, "validator-withdraws-own-stake", nil)
				}
			}
			// the delegator tries to unstake what was force-released in the same block (must fail, no double release)
			for _, st := range dg.Stakes {
				if st.Owner == d.A() {
					ti := sc.add(d, rctypes.TRX_UNSTAKING, v.Addr, new(big.Int), &rctypes.TrxPayloadUnstaking{TxHash: addrBytes(st.TxHash)}, "unstake-already-released", nil)
					ti.Intend = false
					break
				}
			}
			sc.hr.C.Count("scenario.forced-release", 1)
		}
	}
	return s
}

// two proposals that mature and are applied in the same block, with disjoint and with overlapping fields.
func scenTwinProposals(start int64, overlapping bool) *scenario {
	s := &scenario{name: "twin-proposals", start: start, state: map[string]interface{}{}}
	s.step = func(sc *scenCtx, rel int64) {
		g := sc.hr.G
		lv := sc.hr.M.lastValidators(sc.h)
		switch rel {
		case 0:
			var prop *Key
			for _, v := range lv {
				if k := g.Keys[v.Addr]; k != nil {
					prop = k
					break
				}
			}
			if prop == nil {
				return
			}
			P := sc.pre.Params
			startH := sc.h + 1
			period := P.MinVotingPeriodBlocks
			applying := startH + period + P.LazyApplyingBlocks + 1
			o1, o2 := `{"slashRatio":"21","lazyRewardBlocks":"5"}`, `{"signedBlocksWindow":"9","minSignedBlocks":"2"}`
			if overlapping {
				o2 = `{"slashRatio":"34","version":"9"}`
			}
			var hashes []string
			for i, opt := range []string{o1, o2} {
				ti := sc.add(prop, rctypes.TRX_PROPOSAL, zeroAddr, new(big.Int), &rctypes.TrxPayloadProposal{Message: fmt.Sprintf("twin%d", i), StartVotingHeight: startH,
					VotingPeriodBlocks: period, ApplyingHeight: applying, OptType: optGovParams, Options: [][]byte{[]byte(opt)}}, "twin-proposal", nil)
				hashes = append(hashes, ti.Hash)
			}
			s.state["hashes"] = hashes
		case 1:
			hashes, _ := s.state["hashes"].([]string)
			for _, hsh := range hashes {
				p := sc.pre.Proposals[hsh]
				if p == nil {
					continue
				}
				for _, vk := range sortedKeys(p.Voters) {
					if k := g.Keys[vk]; k != nil {
						sc.add(k, rctypes.TRX_VOTING, zeroAddr, new(big.Int), &rctypes.TrxPayloadVoting{TxHash: addrBytes(hsh), Choice: 0}, "twin-vote", nil)
					}
				}
			}
			sc.hr.C.Count("scenario.twin-proposals", 1)
		}
	}
	return s
}

// gas price change by governance while transactions signed for the old and the new price are in flight.
func scenGasPriceChange(start int64) *scenario {
	s := &scenario{name: "gas-price-change", start: start, state: map[string]interface{}{}}
	s.step = func(sc *scenCtx, rel int64) {
		g := sc.hr.G
		a, b := reservedKey(sc.hr, 4), reservedKey(sc.hr, 5)
		if a == nil || b == nil {
			return
		}
		switch {
		case rel == 0:
			lv := sc.hr.M.lastValidators(sc.h)
			var prop *Key
			for _, v := range lv {
				if k := g.Keys[v.Addr]; k != nil {
					prop = k
					break
				}
			}
			if prop == nil {
				return
			}
			P := sc.pre.Params
			old := bigDec(P.GasPrice)
			np := new(big.Int).Add(old, big.NewInt(7))
			s.state["old"], s.state["new"] = old, np
			startH := sc.h + 1
			applying := startH + P.MinVotingPeriodBlocks + P.LazyApplyingBlocks + 1
			ti := sc.add(prop, rctypes.TRX_PROPOSAL, zeroAddr, new(big.Int), &rctypes.TrxPayloadProposal{Message: "price", StartVotingHeight: startH,
				VotingPeriodBlocks: P.MinVotingPeriodBlocks, ApplyingHeight: applying, OptType: optGovParams,
				Options: [][]byte{[]byte(fmt.Sprintf(`{"gasPrice":"%s","minTrxGas":"%d"}`, np, P.MinTrxGas+3))}}, "price-proposal", nil)
			s.state["hash"] = ti.Hash
		case rel == 1:
			hsh, _ := s.state["hash"].(string)
			if p := sc.pre.Proposals[hsh]; p != nil {
				for _, vk := range sortedKeys(p.Voters) {
					if k := g.Keys[vk]; k != nil {
						sc.add(k, rctypes.TRX_VOTING, zeroAddr, new(big.Int), &rctypes.TrxPayloadVoting{TxHash: addrBytes(hsh), Choice: 0}, "price-vote", nil)
					}
				}
			}
		case rel >= 2 && rel <= 12:
			old, _ := s.state["old"].(*big.Int)
			np, _ := s.state["new"].(*big.Int)
			if old == nil {
				return
			}
			cur := bigDec(sc.pre.Params.GasPrice)
			// one transfer signed with each price, every block across the switch
			for i, pr := range []*big.Int{old, np} {
				k := []*Key{a, b}[i]
				pr := pr
				ti := sc.add(k, rctypes.TRX_TRANSFER, sc.hr.G.Fresh[0].Addr, big.NewInt(3), nil, fmt.Sprintf("transfer-at-price-%s", pr), func(tx *rctypes.Trx) {
					tx.GasPrice = u256big(pr)
					tx.Gas = sc.pre.Params.MinTrxGas + 10
				})
				ti.Intend = pr.Cmp(cur) == 0
			}
			if cur.Cmp(np) == 0 {
				sc.hr.C.Count("scenario.blocks-after-price-switch", 1)
			}
		}
	}
	return s
}

// downtime jail: a non-anchor genesis validator misses every block until it is jailed; evidence twice in one block.
func scenJailAndEvidence(start int64) *scenario {
	s := &scenario{name: "jail-and-evidence", start: start}
	s.step = func(sc *scenCtx, rel int64) {
		g := sc.hr.G.G
		if len(g.Validators) < 2 {
			return
		}
		x := g.Validators[len(g.Validators)-1].Key
		if x.A() == sc.hr.G.Anchor {
			return
		}
		for i := range sc.b.Votes {
			if hx(sc.b.Votes[i].Addr) == x.A() {
				sc.b.Votes[i].Signed = false
			}
		}
		if rel == 2 || rel == 4 {
			// evidence against the validator that also missed the block (slash and downtime mark in one block)
			pw := int64(0)
			if d := sc.pre.Delegatees[x.A()]; d != nil {
				pw = d.Total
				sc.b.Evidence = append(sc.b.Evidence, EvSpec{Addr: x.Addr, Power: pw, Height: sc.h - 1})
				sc.hr.C.Count("scenario.evidence-and-absence-same-block", 1)
			}
		}
		if rel == 1 && len(g.Validators) >= 3 {
			y := g.Validators[1].Key
			if y.A() != sc.hr.G.Anchor {
				pw := int64(0)
				if d := sc.pre.Delegatees[y.A()]; d != nil {
					pw = d.Total
				}
				sc.b.Evidence = append(sc.b.Evidence, EvSpec{Addr: y.Addr, Power: pw, Height: sc.h - 1}, EvSpec{Addr: y.Addr, Power: pw, Height: sc.h - 1})
				sc.hr.C.Count("scenario.double-evidence", 1)
			}
		}
	}
	return s
}

// A genesis validator that is not among the asset holders (the genesis written by the repository's own init command
// has such validators; InitChain gives them an empty account), stays offline from the start, never proposes, receives
// nothing and is therefore jailed while its account is still empty: its released genesis stake must come back to it
// when the unbonding period is over. Needs
// GenOpts.UnfundedLast (the last genesis validator holds nothing and is unknown to the random generator).
func scenOfflineUnfunded() *scenario {
	s := &scenario{name: "offline-unfunded-validator", start: 1}
	s.step = func(sc *scenCtx, rel int64) {
		g := sc.hr.G.G
		if len(g.Validators) < 2 {
			return
		}
		x := g.Validators[len(g.Validators)-1].Key
		for i := range sc.b.Votes {
			if hx(sc.b.Votes[i].Addr) == x.A() {
				sc.b.Votes[i].Signed = false
			}
		}
		if hx(sc.b.Proposer) == x.A() {
			sc.b.Proposer = g.Validators[0].Key.Addr
		}
		for _, f := range sc.pre.Frozen {
			if f.Owner == x.A() && f.Refund == sc.h {
				sc.hr.C.Count("scenario.refund-due-to-offline-validator", 1)
			}
		}
	}
	return s
}

var _ = uint256.NewInt

// limiter rejection followed by further stake changes of the same delegatee inside one block:
// needs >= 3 validators (the limiter is armed), updatable ratio 33, no individual limit.
func scenLimiterRejection(start int64) *scenario {
	s := &scenario{name: "limiter-rejection", start: start}
	s.step = func(sc *scenCtx, rel int64) {
		v, d := reservedKey(sc.hr, 0), reservedKey(sc.hr, 1)
		if v == nil || d == nil {
			return
		}
		sum := int64(0)
		for _, g := range sc.hr.G.G.Validators {
			sum += g.Power
		}
		md := new(big.Int).Div(bigDec(sc.pre.Params.MinDelegatorStake), big1e18).Int64()
		switch rel {
		case 0:
			sc.add(v, rctypes.TRX_STAKING, v.Addr, e18(2*sum+minPowerOf(&sc.pre.Params)), nil, "big-self-stake", nil)
		case 1:
			sc.add(d, rctypes.TRX_STAKING, v.Addr, e18(2+md), nil, "delegate-1", nil)
			sc.add(d, rctypes.TRX_STAKING, v.Addr, e18(3+md), nil, "delegate-2", nil)
		case 3, 5:
			dg := sc.pre.Delegatees[v.A()]
			if dg == nil {
				return
			}
			var own, deleg []*MStake
			for _, st := range dg.Stakes {
				if st.Owner == v.A() {
					own = append(own, st)
				} else if st.Owner == d.A() {
					deleg = append(deleg, st)
				}
			}
			if len(own) == 0 || len(deleg) == 0 {
				return
			}
			// accepted small change, then a change beyond the updatable budget (must be rejected without a trace),
			// then another small change of the same delegatee (must still be accepted)
			// transactions that fail for reasons unrelated to staking rules must not leave a trace in the per-block limiter either
			if other := reservedKey(sc.hr, 2); other != nil {
				f1 := sc.add(other, rctypes.TRX_STAKING, v.Addr, e18(2+md), nil, "delegation-with-wrong-nonce", func(tx *rctypes.Trx) { tx.Nonce += 5 })
				f1.Intend = false
				f2 := sc.add(other, rctypes.TRX_STAKING, v.Addr, e18(2+md), nil, "delegation-with-forged-signature", nil)
				f2.Intend, f2.SigOK = false, false
				// corrupt the signature on the wire
				t2 := &rctypes.Trx{}
				if t2.Decode(f2.Raw) == nil && len(t2.Sig) == 65 {
					t2.Sig[9] ^= 0x20
					if bz, xerr := t2.Encode(); xerr == nil {
						f2.Raw = bz
						f2.Hash = hx(sha256sum(bz))
						sc.b.Txs[len(sc.b.Txs)-1] = bz
					}
				}
			}
			sc.add(d, rctypes.TRX_UNSTAKING, v.Addr, new(big.Int), &rctypes.TrxPayloadUnstaking{TxHash: addrBytes(deleg[0].TxHash)}, "small-unstake-1", nil)
			ti := sc.add(v, rctypes.TRX_UNSTAKING, v.Addr, new(big.Int), &rctypes.TrxPayloadUnstaking{TxHash: addrBytes(own[0].TxHash)}, "unstake-beyond-updatable-limit", nil)
			ti.Intend = false
			if len(deleg) > 1 {
				sc.add(d, rctypes.TRX_UNSTAKING, v.Addr, new(big.Int), &rctypes.TrxPayloadUnstaking{TxHash: addrBytes(deleg[1].TxHash)}, "small-unstake-2", nil)
			} else {
				sc.add(d, rctypes.TRX_STAKING, v.Addr, e18(2+md), nil, "small-delegation-after-rejection", nil)
			}
			sc.hr.C.Count("scenario.limiter-rejection", 1)
		}
	}
	return s
}

// individual-limit rejection: a delegation that would lift a validator above the individual power share is
// rejected; a small delegation to the same validator later in the same block must still be accepted (the
// rejected one may not leave a trace in the per-block limiter), also when the rejected one is repeated.
func scenIndividualLimit(start int64) *scenario {
	s := &scenario{name: "individual-limit-rejection", start: start}
	s.step = func(sc *scenCtx, rel int64) {
		if rel < 0 || rel > 6 || rel%2 == 1 {
			return
		}
		big1, small1 := reservedKey(sc.hr, 3), reservedKey(sc.hr, 4)
		if big1 == nil || small1 == nil {
			return
		}
		P := sc.pre.Params
		limit := P.MaxIndividualStakeRatio
		ranked := rankDelegatees(sc.pre, &P)
		if len(ranked) < 3 {
			return
		}
		base := int64(0)
		for i, d := range ranked {
			if int64(i) < P.MaxValidatorCnt {
				base += d.Total
			}
		}
		md := new(big.Int).Div(bigDec(P.MinDelegatorStake), big1e18).Int64()
		small := md + 1
		// the smallest validator that stays below the limit with the small delegation
		var target *MDeleg
		for i := len(ranked) - 1; i >= 0; i-- {
			d := ranked[i]
			if int64(i) < P.MaxValidatorCnt && (d.Total+small)*100/(base+small) <= limit && (d.Total+2*small)*100/(base+2*small) <= limit {
				target = d
				break
			}
		}
		if target == nil || base <= 0 {
			return
		}
		huge := base // (total+base)*100/(2*base) >= 50
		if (target.Total+huge)*100/(base+huge) <= limit {
			return
		}
		to := addrBytes(target.Addr)
		f := sc.add(big1, rctypes.TRX_STAKING, to, e18(huge), nil, "delegation-above-individual-limit", nil)
		f.Intend = false
		sc.add(small1, rctypes.TRX_STAKING, to, e18(small), nil, "small-delegation-after-individual-limit-rejection", nil)
		if rel >= 2 {
			f2 := sc.add(big1, rctypes.TRX_STAKING, to, e18(huge+1), nil, "delegation-above-individual-limit-again", nil)
			f2.Intend = false
			sc.add(small1, rctypes.TRX_STAKING, to, e18(small), nil, "second-small-delegation", nil)
		}
		sc.hr.C.Count("scenario.individual-limit-rejection", 1)
	}
	return s
}

// structured address families: many new accounts created in one block whose addresses agree in their leading
// or in their trailing bytes (anything that orders, hashes or truncates keys sees ties and near-ties)
func scenVanityBurst(start int64) *scenario {
	s := &scenario{name: "vanity-burst", start: start}
	s.step = func(sc *scenCtx, rel int64) {
		if rel != 0 && rel != 2 && rel != 5 {
			return
		}
		k := reservedKey(sc.hr, 5)
		if k == nil {
			return
		}
		fam := sha256sum([]byte(fmt.Sprint("vanity", sc.hr.G.G.ChainID, rel)))
		for j := 0; j < 10; j++ {
			a := make([]byte, 20)
			v := sha256sum([]byte(fmt.Sprint("member", rel, j)))
			if rel == 2 {
				copy(a, fam[:12]) // common prefix
				copy(a[12:], v[:8])
			} else {
				copy(a, v[:12])
				copy(a[12:], fam[:8]) // common suffix
				if rel == 5 {
					copy(a[4:], fam[8:24]) // only four leading bytes differ
				}
			}
			sc.add(k, rctypes.TRX_TRANSFER, a, big.NewInt(int64(1000+j)), nil, "vanity-transfer", nil)
		}
		sc.hr.C.Count("scenario.vanity-burst", 1)
	}
	return s
}

// a single-field governance change (proposed, voted by everybody, applied) in the middle of a history
func scenParamChange(start int64, field string) *scenario {
	s := &scenario{name: "param-change:" + field, start: start, state: map[string]interface{}{}}
	s.step = func(sc *scenCtx, rel int64) {
		g := sc.hr.G
		switch rel {
		case 0:
			var prop *Key
			for _, v := range sc.hr.M.lastValidators(sc.h) {
				if k := g.Keys[v.Addr]; k != nil {
					prop = k
					break
				}
			}
			if prop == nil {
				return
			}
			P := sc.pre.Params
			var val string
			switch field {
			case "rewardPerPower":
				cur := bigDec(P.RewardPerPower)
				val = new(big.Int).Add(new(big.Int).Mul(cur, big.NewInt(3)), big.NewInt(7)).String()
			case "lazyRewardBlocks":
				val = fmt.Sprint(P.LazyRewardBlocks + 3)
			case "maxValidatorCnt":
				// lower the limit below the current number of validators
				n := int64(len(sc.hr.M.lastValidators(sc.h))) - 1
				if n < 1 {
					n = 1
				}
				val = fmt.Sprint(n)
			default:
				val = "7"
			}
			startH := sc.h + 1
			ti := sc.add(prop, rctypes.TRX_PROPOSAL, zeroAddr, new(big.Int), &rctypes.TrxPayloadProposal{Message: "change " + field, StartVotingHeight: startH,
				VotingPeriodBlocks: P.MinVotingPeriodBlocks, ApplyingHeight: startH + P.MinVotingPeriodBlocks + P.LazyApplyingBlocks + 1, OptType: optGovParams,
				Options: [][]byte{[]byte(fmt.Sprintf(`{"%s":"%s"}`, field, val))}}, "param-proposal", nil)
			s.state["hash"] = ti.Hash
		case 1:
			hsh, _ := s.state["hash"].(string)
			if p := sc.pre.Proposals[hsh]; p != nil {
				for _, vk := range sortedKeys(p.Voters) {
					if k := g.Keys[vk]; k != nil {
						sc.add(k, rctypes.TRX_VOTING, zeroAddr, new(big.Int), &rctypes.TrxPayloadVoting{TxHash: addrBytes(hsh), Choice: 0}, "param-vote", nil)
					}
				}
				sc.hr.C.Count("scenario.param-change."+field, 1)
			}
		}
	}
	return s
}

// mass population: one process lifetime touches far more distinct accounts than any ordinary history
// (long-lived caches, pools and maps behave differently when they are large).
func scenMassPopulation(start int64, blocks, perBlock int) *scenario {
	s := &scenario{name: "mass-population", start: start}
	n := 0
	s.step = func(sc *scenCtx, rel int64) {
		var ks []*Key
		for _, i := range []int{3, 4, 5} {
			if k := reservedKey(sc.hr, i); k != nil {
				ks = append(ks, k)
			}
		}
		if len(ks) == 0 || rel >= int64(blocks) {
			return
		}
		first := map[string]*TxInfo{}
		for j := 0; j < perBlock; j++ {
			n++
			k := ks[j%len(ks)] // several senders take turns: each of them is idle while the others are active
			to := sha256sum([]byte(fmt.Sprintf("population-%d", n)))[:20]
			ti := sc.addFast(k, to, big.NewInt(1))
			if first[k.A()] == nil {
				first[k.A()] = ti
			}
		}
		// every sender's first transfer of this block once more at its end (same-block duplicates)
		for _, k := range ks {
			f := first[k.A()]
			dup := &TxInfo{Tx: f.Tx, Raw: f.Raw, Hash: f.Hash, Label: "scenario:duplicate-of-first-population-transfer", Pub: f.Pub, SigOK: true, Intend: false}
			sc.txs = append(sc.txs, dup)
			sc.b.Txs = append(sc.b.Txs, dup.Raw)
		}
		sc.hr.C.Count("scenario.mass-population-accounts", perBlock)
	}
	return s
}

// addFast appends a plain transfer without scanning the block for earlier transactions of the sender.
func (sc *scenCtx) addFast(k *Key, to []byte, amt *big.Int) *TxInfo {
	if sc.added == nil {
		sc.added = map[string]uint64{}
	}
	if _, ok := sc.added[k.A()]; !ok {
		sc.added[k.A()] = sc.nonce(k)
	}
	P := sc.pre.Params
	tx := mkTx(rctypes.TRX_TRANSFER, k.Addr, to, sc.added[k.A()], P.MinTrxGas, u256big(bigDec(P.GasPrice)), u256big(amt), nil, sc.h*1_000_000+int64(len(sc.txs)))
	sc.added[k.A()]++
	raw := signTx(tx, k, sc.hr.G.G.ChainID)
	ti := &TxInfo{Tx: tx, Raw: raw, Hash: hx(sha256sum(raw)), Label: "scenario:population-transfer", Pub: k.Pub, SigOK: true, Intend: true}
	sc.txs = append(sc.txs, ti)
	sc.b.Txs = append(sc.b.Txs, raw)
	return ti
}
