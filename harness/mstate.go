package main

// Model state: an unbounded-integer mirror of a Dump, plus conversion and diffing.

import (
	"fmt"
	"math/big"
	"sort"
	"strings"
)

type MAcct struct {
	Addr   string
	Name   string
	Nonce  uint64
	Bal    *big.Int
	Code   string
	DocURL string
}

type MStake struct {
	Owner, To, TxHash string
	Start, Refund     int64
	Power             int64
}

type MDeleg struct {
	Addr, PubKey string
	Self, Total  int64
	Slashed      int64
	Stakes       []*MStake
	NotSigned    []int64
}

type MReward struct {
	Addr                                  string
	Issued, Withdrawn, Slashed, Cumulated *big.Int
	Height                                int64
}

type MVoter struct {
	Addr   string
	Power  int64
	Choice int32
}

type MOption struct {
	Option string
	Votes  int64
}

type MProposal struct {
	TxHash                                     string
	Start, End, Applying, TotalPower, Majority int64
	OptType                                    int32
	Voters                                     map[string]*MVoter
	Options                                    []*MOption
	Major                                      *MOption
}

type MState struct {
	MarkFloor   int64 // model only: missed-block marks below this height can never matter again and are not compared
	Height      int64
	Accounts    map[string]*MAcct
	Delegatees  map[string]*MDeleg
	Frozen      map[string]*MStake
	Rewards     map[string]*MReward
	Params      DParams
	Proposals   map[string]*MProposal
	FrozenProps map[string]*MProposal
}

func bigDec(s string) *big.Int {
	if s == "" {
		return new(big.Int)
	}
	v, ok := new(big.Int).SetString(s, 10)
	if !ok {
		panic("bad decimal " + s)
	}
	return v
}

func newMState() *MState {
	return &MState{Accounts: map[string]*MAcct{}, Delegatees: map[string]*MDeleg{}, Frozen: map[string]*MStake{},
		Rewards: map[string]*MReward{}, Proposals: map[string]*MProposal{}, FrozenProps: map[string]*MProposal{}}
}

func cpStake(s DStake) *MStake {
	return &MStake{Owner: s.Owner, To: s.To, TxHash: s.TxHash, Start: s.Start, Refund: s.Refund, Power: s.Power}
}

func cpProp(p DProposal) *MProposal {
	mp := &MProposal{TxHash: p.TxHash, Start: p.Start, End: p.End, Applying: p.Applying, TotalPower: p.TotalPower,
		Majority: p.MajorityPower, OptType: p.OptType, Voters: map[string]*MVoter{}}
	for _, v := range p.Voters {
		mp.Voters[v.Addr] = &MVoter{Addr: v.Addr, Power: v.Power, Choice: v.Choice}
	}
	for _, o := range p.Options {
		mp.Options = append(mp.Options, &MOption{Option: o.Option, Votes: o.Votes})
	}
	if p.Major != nil {
		mp.Major = &MOption{Option: p.Major.Option, Votes: p.Major.Votes}
	}
	return mp
}

func fromDump(d *Dump) *MState {
	s := newMState()
	s.Height = d.Height
	for _, a := range d.Accounts {
		s.Accounts[a.Addr] = &MAcct{Addr: a.Addr, Name: a.Name, Nonce: a.Nonce, Bal: bigDec(a.Balance), Code: a.Code, DocURL: a.DocURL}
	}
	for _, g := range d.Delegatees {
		md := &MDeleg{Addr: g.Addr, PubKey: g.PubKey, Self: g.Self, Total: g.Total, Slashed: g.Slashed, NotSigned: append([]int64(nil), g.NotSigned...)}
		for _, st := range g.Stakes {
			md.Stakes = append(md.Stakes, cpStake(st))
		}
		s.Delegatees[g.Addr] = md
	}
	for _, f := range d.Frozen {
		s.Frozen[f.TxHash+"|"+f.Owner] = cpStake(f)
	}
	for _, r := range d.Rewards {
		s.Rewards[r.Addr] = &MReward{Addr: r.Addr, Issued: bigDec(r.Issued), Withdrawn: bigDec(r.Withdrawn), Slashed: bigDec(r.Slashed),
			Cumulated: bigDec(r.Cumulated), Height: r.Height}
	}
	if d.Params != nil {
		s.Params = *d.Params
	}
	for _, p := range d.Proposals {
		s.Proposals[p.TxHash] = cpProp(p)
	}
	for _, p := range d.FrozenProps {
		s.FrozenProps[p.TxHash] = cpProp(p)
	}
	return s
}

func (s *MState) clone() *MState {
	n := newMState()
	n.Height = s.Height
	n.Params = s.Params
	for k, a := range s.Accounts {
		c := *a
		c.Bal = new(big.Int).Set(a.Bal)
		n.Accounts[k] = &c
	}
	for k, g := range s.Delegatees {
		c := *g
		c.Stakes = nil
		for _, st := range g.Stakes {
			cs := *st
			c.Stakes = append(c.Stakes, &cs)
		}
		c.NotSigned = append([]int64(nil), g.NotSigned...)
		n.Delegatees[k] = &c
	}
	for k, f := range s.Frozen {
		c := *f
		n.Frozen[k] = &c
	}
	for k, r := range s.Rewards {
		n.Rewards[k] = &MReward{Addr: r.Addr, Issued: new(big.Int).Set(r.Issued), Withdrawn: new(big.Int).Set(r.Withdrawn),
			Slashed: new(big.Int).Set(r.Slashed), Cumulated: new(big.Int).Set(r.Cumulated), Height: r.Height}
	}
	for k, p := range s.Proposals {
		n.Proposals[k] = p.clone()
	}
	for k, p := range s.FrozenProps {
		n.FrozenProps[k] = p.clone()
	}
	return n
}

func (p *MProposal) clone() *MProposal {
	c := *p
	c.Voters = map[string]*MVoter{}
	for k, v := range p.Voters {
		cv := *v
		c.Voters[k] = &cv
	}
	c.Options = nil
	for _, o := range p.Options {
		co := *o
		c.Options = append(c.Options, &co)
	}
	if p.Major != nil {
		cm := *p.Major
		c.Major = &cm
	}
	return &c
}

func (s *MState) acct(addr string) *MAcct {
	a := s.Accounts[addr]
	if a == nil {
		a = &MAcct{Addr: addr, Bal: new(big.Int)}
		s.Accounts[addr] = a
	}
	return a
}

func (a *MAcct) empty() bool {
	return a.Bal.Sign() == 0 && a.Nonce == 0 && a.Name == "" && a.Code == "" && a.DocURL == ""
}

// ---- diff ------------------------------------------------------------------------

type Diff struct {
	Area string // acct.balance acct.nonce acct.meta acct.code deleg frozen reward params proposal frozenprop
	Key  string
	Msg  string
	Lost *MStake // frozen: an expected unbonding stake that is not there
}

func (d Diff) String() string { return d.Area + "[" + d.Key + "]: " + d.Msg }

func stakeStr(s *MStake) string {
	return fmt.Sprintf("{owner=%s to=%s tx=%s start=%d refund=%d power=%d}", s.Owner[:8], s.To[:8], s.TxHash[:8], s.Start, s.Refund, s.Power)
}

// stakeCmp is the compared form of a stake: the start height is bookkeeping no property speaks about.
func stakeCmp(s *MStake) string {
	return fmt.Sprintf("{owner=%s to=%s tx=%s refund=%d power=%d}", s.Owner, s.To, s.TxHash, s.Refund, s.Power)
}

// delegCmp: the stakes bonded to a validator are compared as a set (no property orders them)
func delegCmp(g *MDeleg) string {
	var sb strings.Builder
	fmt.Fprintf(&sb, "self=%d total=%d pub=%s stakes=[", g.Self, g.Total, g.PubKey)
	var ss []string
	for _, s := range g.Stakes {
		ss = append(ss, stakeCmp(s))
	}
	sort.Strings(ss)
	sb.WriteString(strings.Join(ss, ""))
	sb.WriteString("]")
	return sb.String()
}

// zeroReward: an all-zero reward record says the same as no record
func zeroReward(r *MReward) bool {
	return r == nil || (r.Issued.Sign() == 0 && r.Withdrawn.Sign() == 0 && r.Slashed.Sign() == 0 && r.Cumulated.Sign() == 0)
}

func delegStr(g *MDeleg, withMarks bool) string {
	var sb strings.Builder
	fmt.Fprintf(&sb, "self=%d total=%d pub=%s stakes=[", g.Self, g.Total, g.PubKey)
	for _, s := range g.Stakes {
		sb.WriteString(stakeStr(s))
	}
	sb.WriteString("]")
	if withMarks {
		fmt.Fprintf(&sb, " notSigned=%v", g.NotSigned)
	}
	return sb.String()
}

func propStr(p *MProposal) string {
	var sb strings.Builder
	fmt.Fprintf(&sb, "start=%d end=%d apply=%d total=%d major=%d type=%d voters=[", p.Start, p.End, p.Applying, p.TotalPower, p.Majority, p.OptType)
	var ks []string
	for k := range p.Voters {
		ks = append(ks, k)
	}
	sort.Strings(ks)
	for _, k := range ks {
		v := p.Voters[k]
		fmt.Fprintf(&sb, "%s:%d:%d ", k[:8], v.Power, v.Choice)
	}
	sb.WriteString("] options=[")
	for _, o := range p.Options {
		fmt.Fprintf(&sb, "%q:%d ", o.Option, o.Votes)
	}
	sb.WriteString("]")
	if p.Major != nil {
		fmt.Fprintf(&sb, " majorOption=%q:%d", p.Major.Option, p.Major.Votes)
	}
	return sb.String()
}

// openPropCmp: an open proposal is compared without the provisional "major option" (only the decision taken when the
// voting closes is pinned by the properties).
func openPropCmp(p *MProposal) string {
	q := *p
	q.Major = nil
	return propStr(&q)
}

// frozenPropCmp: a closed proposal is compared without the order of its options and without the voters' choice
// indexes (which refer to that order); tallies, voters' powers and the winning option are compared.
func frozenPropCmp(p *MProposal) string {
	var sb strings.Builder
	fmt.Fprintf(&sb, "start=%d end=%d apply=%d total=%d major=%d type=%d voters=[", p.Start, p.End, p.Applying, p.TotalPower, p.Majority, p.OptType)
	var ks []string
	for k := range p.Voters {
		ks = append(ks, k)
	}
	sort.Strings(ks)
	for _, k := range ks {
		fmt.Fprintf(&sb, "%s:%d ", k[:8], p.Voters[k].Power)
	}
	sb.WriteString("] options={")
	var os []string
	for _, o := range p.Options {
		os = append(os, fmt.Sprintf("%q:%d ", o.Option, o.Votes))
	}
	sort.Strings(os)
	sb.WriteString(strings.Join(os, ""))
	sb.WriteString("}")
	if p.Major != nil {
		fmt.Fprintf(&sb, " majorOption=%q:%d", p.Major.Option, p.Major.Votes)
	}
	return sb.String()
}

func rewardStr(r *MReward) string {
	return fmt.Sprintf("issued=%s withdrawn=%s slashed=%s cumulated=%s height=%d", r.Issued, r.Withdrawn, r.Slashed, r.Cumulated, r.Height)
}

// diffStates compares expected (model) against observed. Entirely empty accounts are ignored.
func diffStates(exp, obs *MState) []Diff {
	var out []Diff
	keys := map[string]bool{}
	for k := range exp.Accounts {
		keys[k] = true
	}
	for k := range obs.Accounts {
		keys[k] = true
	}
	for k := range keys {
		e, o := exp.Accounts[k], obs.Accounts[k]
		if e == nil {
			e = &MAcct{Addr: k, Bal: new(big.Int)}
		}
		if o == nil {
			o = &MAcct{Addr: k, Bal: new(big.Int)}
		}
		if e.Bal.Cmp(o.Bal) != 0 {
			out = append(out, Diff{Area: "acct.balance", Key: k, Msg: fmt.Sprintf("expected %s observed %s (observed-expected=%s)", e.Bal, o.Bal, new(big.Int).Sub(o.Bal, e.Bal))})
		}
		if e.Nonce != o.Nonce {
			out = append(out, Diff{Area: "acct.nonce", Key: k, Msg: fmt.Sprintf("expected %d observed %d", e.Nonce, o.Nonce)})
		}
		if e.Name != o.Name || e.DocURL != o.DocURL {
			out = append(out, Diff{Area: "acct.meta", Key: k, Msg: fmt.Sprintf("expected name=%q url=%q observed name=%q url=%q", e.Name, e.DocURL, o.Name, o.DocURL)})
		}
		if (e.Code == "") != (o.Code == "") {
			out = append(out, Diff{Area: "acct.code", Key: k, Msg: fmt.Sprintf("contract marker expected %q observed %q", e.Code, o.Code)})
		}
	}
	dk := map[string]bool{}
	for k := range exp.Delegatees {
		dk[k] = true
	}
	for k := range obs.Delegatees {
		dk[k] = true
	}
	for k := range dk {
		e, o := exp.Delegatees[k], obs.Delegatees[k]
		switch {
		case e == nil:
			out = append(out, Diff{Area: "deleg", Key: k, Msg: "unexpected delegatee " + delegStr(o, true)})
		case o == nil:
			out = append(out, Diff{Area: "deleg", Key: k, Msg: "missing delegatee " + delegStr(e, true)})
		default:
			if delegCmp(e) != delegCmp(o) {
				out = append(out, Diff{Area: "deleg", Key: k, Msg: "expected " + delegStr(e, false) + " observed " + delegStr(o, false)})
			}
			if em, om := marksFrom(e.NotSigned, exp.MarkFloor), marksFrom(o.NotSigned, exp.MarkFloor); fmt.Sprint(em) != fmt.Sprint(om) {
				out = append(out, Diff{Area: "deleg.marks", Key: k, Msg: fmt.Sprintf("expected missed-block marks %v observed %v (window starts at %d)", em, om, exp.MarkFloor)})
			}
		}
	}
	fk := map[string]bool{}
	for k := range exp.Frozen {
		fk[k] = true
	}
	for k := range obs.Frozen {
		fk[k] = true
	}
	for k := range fk {
		e, o := exp.Frozen[k], obs.Frozen[k]
		switch {
		case e == nil:
			out = append(out, Diff{Area: "frozen", Key: k, Msg: "unexpected unbonding stake " + stakeStr(o)})
		case o == nil:
			out = append(out, Diff{Area: "frozen", Key: k, Msg: "missing unbonding stake " + stakeStr(e), Lost: e})
		case stakeCmp(e) != stakeCmp(o):
			out = append(out, Diff{Area: "frozen", Key: k, Msg: "expected " + stakeStr(e) + " observed " + stakeStr(o)})
		}
	}
	rk := map[string]bool{}
	for k := range exp.Rewards {
		rk[k] = true
	}
	for k := range obs.Rewards {
		rk[k] = true
	}
	for k := range rk {
		e, o := exp.Rewards[k], obs.Rewards[k]
		switch {
		case zeroReward(e) && zeroReward(o):
			// nothing recorded either way
		case e == nil:
			out = append(out, Diff{Area: "reward", Key: k, Msg: "unexpected reward record " + rewardStr(o)})
		case o == nil:
			out = append(out, Diff{Area: "reward", Key: k, Msg: "missing reward record " + rewardStr(e)})
		default:
			if e.Cumulated.Cmp(o.Cumulated) != 0 {
				out = append(out, Diff{Area: "reward", Key: k, Msg: "expected " + rewardStr(e) + " observed " + rewardStr(o)})
			} else if rewardStr(e) != rewardStr(o) {
				out = append(out, Diff{Area: "reward.detail", Key: k, Msg: "expected " + rewardStr(e) + " observed " + rewardStr(o)})
			}
		}
	}
	if exp.Params != obs.Params {
		out = append(out, Diff{Area: "params", Key: "", Msg: fmt.Sprintf("expected %+v observed %+v", exp.Params, obs.Params)})
	}
	for _, pair := range []struct {
		area string
		e, o map[string]*MProposal
	}{{"proposal", exp.Proposals, obs.Proposals}, {"frozenprop", exp.FrozenProps, obs.FrozenProps}} {
		pk := map[string]bool{}
		for k := range pair.e {
			pk[k] = true
		}
		for k := range pair.o {
			pk[k] = true
		}
		for k := range pk {
			e, o := pair.e[k], pair.o[k]
			if pair.area == "frozenprop" && (e == nil || e.Major == nil) && (o == nil || o.Major == nil) {
				continue // closed without a winning option: whether and how long such a record is kept is not pinned
			}
			switch {
			case e == nil:
				out = append(out, Diff{Area: pair.area, Key: k, Msg: "unexpected " + propStr(o)})
			case o == nil:
				out = append(out, Diff{Area: pair.area, Key: k, Msg: "missing " + propStr(e)})
			case pair.area == "proposal" && openPropCmp(e) != openPropCmp(o), pair.area == "frozenprop" && frozenPropCmp(e) != frozenPropCmp(o):
				out = append(out, Diff{Area: pair.area, Key: k, Msg: "expected " + propStr(e) + " observed " + propStr(o)})
			}
		}
	}
	sort.Slice(out, func(i, j int) bool {
		if out[i].Area != out[j].Area {
			return out[i].Area < out[j].Area
		}
		return out[i].Key < out[j].Key
	})
	return out
}

func marksFrom(m []int64, floor int64) []int64 {
	var out []int64
	for _, h := range m {
		if h >= floor {
			out = append(out, h)
		}
	}
	return out
}

// adoptGenesisStakeIDs: the properties do not say which id a genesis stake carries (the pinned code uses 00..00 for
// all of them). The expectation for block 1 is built with 00..00; where the observed state shows the same genesis
// stake (same owner, same validator, same place: bonded or unbonding) under another id that is not a transaction
// of block 1, the expectation takes that id over. From block 2 on ids come from the observed previous state anyway.
func adoptGenesisStakeIDs(exp, obs *MState, blockTx map[string]bool) int {
	zero := strings.Repeat("0", 64)
	n := 0
	pick := func(cands []*MStake, owner, to string) string {
		id := ""
		for _, st := range cands {
			if st.Owner == owner && st.To == to && st.TxHash != zero && !blockTx[st.TxHash] {
				if id != "" && id != st.TxHash {
					return "" // not unique
				}
				id = st.TxHash
			}
		}
		return id
	}
	for addr, d := range exp.Delegatees {
		od := obs.Delegatees[addr]
		if od == nil {
			continue
		}
		for _, st := range d.Stakes {
			if st.TxHash == zero {
				if id := pick(od.Stakes, st.Owner, st.To); id != "" {
					st.TxHash = id
					n++
				}
			}
		}
	}
	var ofz []*MStake
	for _, st := range obs.Frozen {
		ofz = append(ofz, st)
	}
	for k, st := range exp.Frozen {
		if st.TxHash == zero {
			if id := pick(ofz, st.Owner, st.To); id != "" {
				delete(exp.Frozen, k)
				st.TxHash = id
				exp.Frozen[id+"|"+st.Owner] = st
				n++
			}
		}
	}
	return n
}
