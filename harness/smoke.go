package main

import (
	"encoding/json"
	"fmt"
	"math/big"
	"os"

	rctypes "github.com/rigochain/rigo-go/ctrlers/types"
)

func e18(n int64) *big.Int { return new(big.Int).Mul(big.NewInt(n), big.NewInt(1e18)) }

func baseParams() DParams {
	return DParams{
		Version: 1, MaxValidatorCnt: 10, MinValidatorStake: e18(1).String(), MinDelegatorStake: "0", RewardPerPower: "2000000000",
		LazyRewardBlocks: 4, LazyApplyingBlocks: 2, GasPrice: "10", MinTrxGas: 10, MaxTrxGas: 1 << 62, MaxBlockGas: 1 << 62,
		MinVotingPeriodBlocks: 1, MaxVotingPeriodBlocks: 10, MinSelfStakeRatio: 50, MaxUpdatableStakeRatio: 33, MaxIndividualStakeRatio: 33,
		SlashRatio: 50, SignedBlocksWindow: 8, MinSignedBlocks: 3,
	}
}

func smoke() int {
	dir, _ := os.MkdirTemp(verifRoot+"/.build", "smoke")
	defer os.RemoveAll(dir)
	g := &GenCfg{ChainID: "verif-chain", Params: baseParams()}
	for i := 0; i < 3; i++ {
		g.Validators = append(g.Validators, GenVal{Key: deriveKey(1, fmt.Sprintf("val%d", i)), Power: 100})
	}
	for i := 0; i < 3; i++ {
		g.Holders = append(g.Holders, GenHolder{Key: deriveKey(1, fmt.Sprintf("holder%d", i)), Balance: e18(1000)})
	}
	r, err := Spawn(dir, SpawnOpt{})
	if err != nil {
		fmt.Println(err)
		return 1
	}
	defer r.Close()
	info, err := r.Info()
	fmt.Println("info", info, err)
	ic, err := r.InitChain(g.InitChainReq())
	fmt.Println("init", ic, err)
	sim, _ := NewTMSim(g)
	var appHash []byte
	for h := int64(1); h <= 5; h++ {
		b := &BlockSpec{Height: h, Time: 1700000000 + h*3, Proposer: g.Validators[0].Key.Addr}
		if h > 1 {
			for _, v := range sim.SetAt(h - 1) {
				b.Votes = append(b.Votes, VoteSpec{Addr: v.Addr, Power: v.Power, Signed: true})
			}
		}
		tx := mkTx(rctypes.TRX_TRANSFER, g.Holders[0].Key.Addr, g.Holders[1].Key.Addr, uint64(h-1), 10, u256(10), u256(5), nil, h)
		b.Txs = append(b.Txs, signTx(tx, g.Holders[0].Key, g.ChainID))
		res, err := execBlock(r, g.ChainID, b, appHash)
		if err != nil {
			fmt.Println("ERR", err)
			return 1
		}
		appHash = res.Commit.Data
		fmt.Print(res.consensusView())
		if err := sim.ApplyUpdates(h, res.End.ValidatorUpdates); err != nil {
			fmt.Println("tmsim:", err)
		}
	}
	d, err := r.DumpAt(5, nil)
	bz, _ := json.MarshalIndent(d, "", " ")
	fmt.Println(string(bz), err)
	a, _ := r.Active()
	bz, _ = json.Marshal(a)
	fmt.Println(string(bz))
	fmt.Println(r.Stop())
	return 0
}
