package main

// Wire protocol between the driver and a vnode replica process: gob-encoded Cmd / Rsp
// pairs over the child's stdin / stdout. ABCI requests and responses travel as the
// protobuf encoding of the real tendermint abci types.

type Cmd struct {
	Op string // info init begin deliver end commit check query dump arm hits active stop stress ping

	Req []byte // protobuf of the specific abci request message

	// dump
	Height int64
	Addrs  [][]byte

	// arm
	Point string
	Nth   int

	// settimes: height -> unix seconds (for the mock block store behind vm_call)
	Times map[int64]int64

	// stress (concurrent mode)
	Stress *StressSpec
}

type Rsp struct {
	Err    string
	Res    []byte // protobuf of the specific abci response message
	Dump   *Dump
	Hits   map[string]int
	Order  []string
	Active *Active
	Stress *StressResult
}

// ---- state dump ----------------------------------------------------------------

type DAccount struct {
	Addr    string
	Name    string
	Nonce   uint64
	Balance string // decimal
	Code    string // hex
	DocURL  string
}

type DStake struct {
	Owner  string
	To     string
	TxHash string
	Start  int64
	Refund int64
	Power  int64
}

type DDelegatee struct {
	Addr      string
	PubKey    string
	Self      int64
	Total     int64
	Slashed   int64
	Stakes    []DStake
	NotSigned []int64
}

type DReward struct {
	Addr      string
	Issued    string
	Withdrawn string
	Slashed   string
	Cumulated string
	Height    int64
}

type DVoter struct {
	Addr   string
	Power  int64
	Choice int32
}

type DOption struct {
	Option string // raw option bytes
	Votes  int64
}

type DProposal struct {
	TxHash        string
	Start         int64
	End           int64
	Applying      int64
	TotalPower    int64
	MajorityPower int64
	OptType       int32
	Voters        []DVoter // sorted by address
	Options       []DOption
	Major         *DOption
}

type DParams struct {
	Version                 int64
	MaxValidatorCnt         int64
	MinValidatorStake       string
	MinDelegatorStake       string
	RewardPerPower          string
	LazyRewardBlocks        int64
	LazyApplyingBlocks      int64
	GasPrice                string
	MinTrxGas               uint64
	MaxTrxGas               uint64
	MaxBlockGas             uint64
	MinVotingPeriodBlocks   int64
	MaxVotingPeriodBlocks   int64
	MinSelfStakeRatio       int64
	MaxUpdatableStakeRatio  int64
	MaxIndividualStakeRatio int64
	SlashRatio              int64
	SignedBlocksWindow      int64
	MinSignedBlocks         int64
}

type DContract struct {
	Addr    string
	Exist   bool
	Code    string
	Storage map[string]string // keccak(slot) hex -> value hex
}

type Dump struct {
	Height      int64
	Accounts    []DAccount
	Delegatees  []DDelegatee
	Frozen      []DStake
	Rewards     []DReward
	Params      *DParams
	Proposals   []DProposal
	FrozenProps []DProposal
	Contracts   []DContract
}

// Active is in-memory state of the application (valid only at the moment it is read).
type Active struct {
	ParamsJSON     string
	Params         *DParams
	LastValidators []DVoter
	LastHeight     int64
}

// ---- concurrent stress mode -----------------------------------------------------

type StressBlock struct {
	Begin []byte   // RequestBeginBlock
	Txs   [][]byte // raw txs
	End   []byte   // RequestEndBlock
}

type StressQuery struct {
	Path string
	Data []byte
}

type StressSpec struct {
	Blocks   []StressBlock
	Clients  int
	CheckTxs [][]byte
	Queries  []StressQuery
	Seed     int64
}

type StressEvent struct {
	Client int
	Kind   string // "query" | "checktx" | "commit"
	Path   string
	Data   []byte
	Call   int64 // monotonic ns
	Return int64
	Phase0 int64 // consensus phase counter observed before the call
	Phase1 int64 // ... after the return
	Height int64 // ResponseQuery.Height or committed height
	Code   uint32
	Value  []byte
}

type StressResult struct {
	Err       string
	Phases    []string // Phases[k] = kind of the consensus call that moved the phase counter from base+k to base+k+1
	PhaseBase int64
	Consensus [][]byte // protobuf responses of every consensus call in order
	Events    []StressEvent
}
