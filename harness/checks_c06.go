package main

// C06: block execution is isolated from CheckTx and Query traffic.
//   deterministic mode: noisy replica vs quiet replica, noise placed in every gap between consensus calls
//   concurrent mode:    -race replica with real client goroutines (data-race detector + same comparison)

import (
	"fmt"
	"math/rand"
	"os"
	"regexp"
	"sort"
	"strings"

	"github.com/holiman/uint256"
	rctypes "github.com/rigochain/rigo-go/ctrlers/types"
	abci "github.com/tendermint/tendermint/abci/types"
)

type queryTpl struct {
	Path string
	Data []byte
}

// queryCatalogue lists query keys that exist (or deliberately do not exist) in a history.
func queryCatalogue(hr *HistRun) []queryTpl {
	var qs []queryTpl
	seen := map[string]bool{}
	add := func(p string, d []byte) {
		k := p + "|" + hx(d)
		if !seen[k] {
			seen[k] = true
			qs = append(qs, queryTpl{p, d})
		}
	}
	for _, k := range hr.G.All {
		add("account", k.Addr)
		add("stakes", k.Addr)
		add("delegatee", k.Addr)
		add("reward", k.Addr)
	}
	add("stakes/total_power", nil)
	add("stakes/voting_power", nil)
	add("gov_params", nil)
	add("proposal", nil)
	var hs []int64
	for h := range hr.M.Hist {
		hs = append(hs, h)
	}
	sort.Slice(hs, func(i, j int) bool { return hs[i] < hs[j] })
	for _, h := range hs {
		for _, k := range sortedKeys(hr.M.Hist[h].Proposals) {
			add("proposal", addrBytes(k))
		}
		for _, k := range sortedKeys(hr.M.Hist[h].FrozenProps) {
			add("proposal", addrBytes(k))
		}
	}
	add("proposal", sha256sum([]byte("no such proposal")))
	add("account", sha256sum([]byte("nobody"))[:20])
	add("delegatee", sha256sum([]byte("nobody"))[:20])
	add("reward", sha256sum([]byte("nobody"))[:20])
	return qs
}

// altTxs generates, for every height, alternative transactions valid against the state before
// that height: same senders and nonces as the real ones, competing stake changes, other votes.
func altTxs(c *Ctx, hr *HistRun, i int) map[int64][][]byte {
	rng := c.Rng("alt", i)
	o := *hr.Opts
	g2 := NewGen(rng, c.Seed*1_000_003+int64(hr.Case), o.Gen, o.Params) // same keys, other choices
	g2.seq = 1 << 40
	g2.Contracts = hr.G.Contracts
	shadow := &Model{G: hr.G.G, Hist: hr.M.Hist, Sim: hr.Sim}
	out := map[int64][][]byte{}
	for h := int64(1); h <= int64(len(hr.Results)); h++ {
		pre := hr.M.Hist[h-1]
		if pre == nil {
			continue
		}
		b, _ := g2.NextBlock(h, hr.Times[h], pre, hr.Sim, hr.M.lastValidators(h), shadow)
		out[h] = b.Txs
		out[h] = append(out[h], directedConflicts(g2.Keys, hr.G.G.ChainID, pre, h, rng)...)
	}
	return out
}

func indexOfTx(l []*TxInfo, t *TxInfo) int {
	for i, x := range l {
		if x == t {
			return i
		}
	}
	return -1
}

// directedConflicts builds transactions that are valid against state pre but are only ever checked,
// never delivered: validators with delegators withdrawing their own stake, every voter voting,
// everybody withdrawing all rewards.
func directedConflicts(keys map[string]*Key, chainID string, pre *MState, h int64, rng *rand.Rand) [][]byte {
	var out [][]byte
	price := bigDec(pre.Params.GasPrice)
	mk := func(k *Key, typ int32, to []byte, pl rctypes.ITrxPayload) {
		a := pre.Accounts[k.A()]
		if a == nil {
			return
		}
		tx := mkTx(typ, k.Addr, to, a.Nonce, pre.Params.MinTrxGas+2, u256big(price), new(uint256.Int), pl, h*1_000_000+800_000+int64(len(out)))
		out = append(out, signTx(tx, k, chainID))
	}
	for _, dk := range sortedKeys(pre.Delegatees) {
		d := pre.Delegatees[dk]
		k := keys[dk]
		if k == nil || d.Total == d.Self {
			continue
		}
		for _, st := range d.Stakes {
			if st.Owner == dk {
				mk(k, rctypes.TRX_UNSTAKING, addrBytes(dk), &rctypes.TrxPayloadUnstaking{TxHash: addrBytes(st.TxHash)})
			}
		}
	}
	for _, pk := range sortedKeys(pre.Proposals) {
		p := pre.Proposals[pk]
		if h < p.Start || h > p.End || len(p.Options) == 0 {
			continue
		}
		for _, vk := range sortedKeys(p.Voters) {
			if k := keys[vk]; k != nil {
				mk(k, rctypes.TRX_VOTING, zeroAddr, &rctypes.TrxPayloadVoting{TxHash: addrBytes(pk), Choice: int32(rng.Intn(len(p.Options)))})
			}
		}
	}
	for _, rk := range sortedKeys(pre.Rewards) {
		if k := keys[rk]; k != nil && pre.Rewards[rk].Cumulated.Sign() > 0 {
			mk(k, rctypes.TRX_WITHDRAW, zeroAddr, &rctypes.TrxPayloadWithdraw{ReqAmt: u256big(pre.Rewards[rk].Cumulated)})
		}
	}
	return out
}

func checkC06(c *Ctx) {
	c.rule = "noisy-vs-quiet twin: the same blocks are executed on a quiet replica and on a replica that serves 0-3 CheckTx/Query calls in every gap between consensus calls (the block's own transactions before/after delivery, the next block's, conflicting ones from the same senders and for the same delegatees, junk bytes; every query path at heights latest/old/future); all consensus responses and app hashes must be equal. Concurrent mode: a -race replica executes the blocks while 4-8 client goroutines issue the same traffic through the shared local client; zero data-race reports and equal consensus responses. distinct = distinct (gap kind x call kind) interleaving signatures observed"
	c.assumptions = append(c.assumptions, "application calls never overlap in the node: consensus, mempool and query connections share the one mutex of rigoLocalClient; concurrency is exercised as contention for that mutex, races that need two overlapping application calls are outside what the node can do (DESIGN 12.4)")
	n := c.N(24, 300)
	raceEvery := 3
	c.Parallel(n, 0, func(i int) {
		o := twinOpts(c, "C06", i)
		rng := c.Rng("c06", i)
		o.Gen.NVal = 3 + rng.Intn(4) // >= 3 validators arm the stake limiter
		o.Params.MaxValidatorCnt = int64(o.Gen.NVal + rng.Intn(2))
		o.Gen.W["stake"], o.Gen.W["delegate"], o.Gen.W["unstake"] = 22, 25, 15
		o.Blocks = c.N(20, 30)
		hr := runHistory(c, i, c.Rng("hist-C06", i), o)
		hr.Report("C06")
		if len(hr.Results) == 0 {
			return
		}
		alts := altTxs(c, hr, i)
		qs := queryCatalogue(hr)
		if i%raceEvery == 0 || !c.Quick() {
			c.c06Concurrent(i, hr, o, alts, qs)
		}
		c.c06Deterministic(i, hr, o, alts, qs, rng)
		if i < 2 {
			c.Sample(map[string]interface{}{"history": o.Name, "blocks": len(hr.Results), "accepted": hr.Accepted, "queries_in_catalogue": len(qs)})
		}
	})
	c.Require("noise.checktx", "noise.query", "concurrent-runs")
}

func (c *Ctx) c06Deterministic(i int, hr *HistRun, o *HistOpts, alts map[int64][][]byte, qs []queryTpl, rng *rand.Rand) {
	dir := c.DirI(i, fmt.Sprintf("c06-%d-noisy", i))
	r, _, err := openReplica(c, dir, hr.G.G, SpawnOpt{}, true)
	if err != nil {
		c.Err(i, "open", err)
		return
	}
	defer func() { r.Close() }()
	nb := len(hr.Results)
	var appHash []byte
	var trace []string
	delivered := 0 // transactions of the current block delivered so far
	// successor: what the sender of an already delivered transaction of this block would submit next (its nonce is
	// right for the state under execution, one too high for the committed state the mempool view starts from)
	successor := func(h int64, bi int) []byte {
		if delivered == 0 || bi >= len(hr.Txs) {
			return nil
		}
		for try := 0; try < 6; try++ {
			ti := hr.Txs[bi][rng.Intn(delivered)]
			if ti == nil || ti.Tx == nil || bi >= len(hr.Results) {
				continue
			}
			k := hr.G.Keys[hx(ti.Tx.From)]
			if k == nil {
				continue
			}
			P := hr.M.Hist[h-1].Params
			nonce := ti.Tx.Nonce
			if idx := indexOfTx(hr.Txs[bi], ti); idx >= 0 && idx < len(hr.Results[bi].Txs) && hr.Results[bi].Txs[idx].Code == 0 {
				nonce++
			}
			tx := mkTx(rctypes.TRX_TRANSFER, k.Addr, hr.G.pick(hr.G.All).Addr, nonce, P.MinTrxGas+3, u256big(bigDec(P.GasPrice)), uint256.NewInt(uint64(1+rng.Intn(900))), nil, h*1_000_000+700_000+int64(rng.Intn(1000)))
			return signTx(tx, k, hr.G.G.ChainID)
		}
		return nil
	}
	noise := func(gap string, h int64, bi int, txi int) error {
		k := rng.Intn(4)
		for n := 0; n < k; n++ {
			if rng.Intn(2) == 0 {
				var tx []byte
				kind := ""
				sel := rng.Intn(8)
				if delivered > 0 && rng.Intn(4) == 0 {
					sel = 100
				}
				switch sel {
				case 100:
					if tx = successor(h, bi); tx != nil {
						kind = "successor-of-delivered"
					}
				case 0: // a transaction of this block (before or after its delivery)
					if len(hr.Blocks[bi].Txs) > 0 {
						tx, kind = hr.Blocks[bi].Txs[rng.Intn(len(hr.Blocks[bi].Txs))], "own"
					}
				case 1: // next block's
					if bi+1 < nb && len(hr.Blocks[bi+1].Txs) > 0 {
						tx, kind = hr.Blocks[bi+1].Txs[rng.Intn(len(hr.Blocks[bi+1].Txs))], "next"
					}
				case 2, 3, 6, 7: // conflicting alternative
					if a := alts[h]; len(a) > 0 {
						tx, kind = a[rng.Intn(len(a))], "conflict"
					}
				case 4:
					tx, kind = make([]byte, rng.Intn(200)), "junk"
					rng.Read(tx)
				default:
					if bi > 0 && len(hr.Blocks[bi-1].Txs) > 0 {
						tx, kind = hr.Blocks[bi-1].Txs[rng.Intn(len(hr.Blocks[bi-1].Txs))], "past"
					}
				}
				if kind == "" {
					continue
				}
				res, err := r.CheckTx(tx)
				if err != nil {
					return err
				}
				trace = append(trace, fmt.Sprintf("h%d %s checktx:%s code=%d", h, gap, kind, res.Code))
				c.Count("noise.checktx", 1)
				c.Distinct(gap + "/checktx:" + kind)
			} else {
				q := qs[rng.Intn(len(qs))]
				qh := int64(0)
				switch rng.Intn(4) {
				case 0:
					qh = 1 + rng.Int63n(h)
				case 1:
					qh = h + 3
				}
				if _, err := r.Query(q.Path, q.Data, qh); err != nil {
					return err
				}
				trace = append(trace, fmt.Sprintf("h%d %s query:%s@%d", h, gap, q.Path, qh))
				c.Count("noise.query", 1)
				c.Distinct(gap + "/query:" + q.Path)
			}
		}
		return nil
	}
	for bi, b := range hr.Blocks[:nb] {
		h := b.Height
		res := &BlockResult{}
		step := func(gap string) bool {
			if err := noise(gap, h, bi, 0); err != nil {
				c.Err(i, "noise "+gap, err)
				return false
			}
			return true
		}
		if !step("before-begin") {
			return
		}
		if res.Begin, err = r.BeginBlock(b.BeginReq(hr.G.G.ChainID, appHash)); err != nil {
			c.Err(i, "begin", err)
			return
		}
		if !step("after-begin") {
			return
		}
		delivered = 0
		for _, tx := range b.Txs {
			dr, err := r.DeliverTx(tx)
			if err != nil {
				c.Err(i, "deliver", err)
				return
			}
			res.Txs = append(res.Txs, dr)
			delivered++
			if !step("between-deliver") {
				return
			}
		}
		if res.End, err = r.EndBlock(h); err != nil {
			c.Err(i, "end", err)
			return
		}
		if !step("after-end") {
			return
		}
		delivered = 0
		if res.Commit, err = r.Commit(); err != nil {
			c.Err(i, "commit", err)
			return
		}
		appHash = res.Commit.Data
		if !step("after-commit") {
			return
		}
		c.Eval(1)
		if bi+1 < nb && rng.Intn(6) == 0 {
			// the noisy node is restarted: its caches are cold while it keeps serving the same traffic
			if err := r.Stop(); err != nil {
				c.Err(i, "stop", err)
				return
			}
			if r, _, err = openReplica(c, dir, hr.G.G, SpawnOpt{}, false); err != nil {
				c.Err(i, "reopen", err)
				return
			}
			_ = r.SetTimes(hr.Times)
			trace = append(trace, fmt.Sprintf("h%d restart", h))
			c.Count("noisy-replica-restarts", 1)
		}
		if a, bb := hr.Results[bi].consensusView(), res.consensusView(); a != bb {
			t := trace
			if len(t) > 25 {
				t = t[len(t)-25:]
			}
			doc := map[string]interface{}{"history": hr.replayDoc(), "noise_trace": trace}
			c.Violation(i, "noise-changes-block-result", fmt.Sprintf("history %s block %d: quiet and noisy replica differ (%s)\nlast noise calls: %s\n--- quiet\n%s--- noisy\n%s",
				o.Name, h, diffFirst(a, bb), strings.Join(t, "; "), a, bb), doc)
			return
		}
	}
	c.Count("deterministic-runs", 1)
}

var raceRe = regexp.MustCompile(`(?s)WARNING: DATA RACE.*?={18}`)

// raceSignature reduces a race report to the outermost rigo-go frames of both stacks.
func raceSignature(rep string) string {
	var frames []string
	for _, ln := range strings.Split(rep, "\n") {
		ln = strings.TrimSpace(ln)
		if strings.HasPrefix(ln, "github.com/rigochain/rigo-go/") {
			if p := strings.Index(ln, "("); p > 0 {
				ln = ln[:p]
			}
			frames = append(frames, strings.TrimPrefix(ln, "github.com/rigochain/rigo-go/"))
		}
	}
	if len(frames) > 6 {
		frames = frames[:6]
	}
	return strings.Join(frames, " <- ")
}

type stressOutcome struct {
	res    *StressResult
	races  []string
	stderr string
}

func runStress(c *Ctx, i int, tag string, hr *HistRun, alts map[int64][][]byte, qs []queryTpl, clients int, race bool) (*stressOutcome, error) {
	dir := c.Dir(fmt.Sprintf("%s-%d-stress", tag, i))
	defer os.RemoveAll(dir)
	r, _, err := openReplica(c, dir, hr.G.G, SpawnOpt{Race: race, Env: []string{"GORACE=halt_on_error=0"}}, true)
	if err != nil {
		return nil, err
	}
	defer r.Close()
	r.Watchdog = 600e9
	spec := &StressSpec{Clients: clients, Seed: c.Seed*31 + int64(i)}
	var appHash []byte
	for bi, b := range hr.Blocks[:len(hr.Results)] {
		spec.Blocks = append(spec.Blocks, StressBlock{Begin: pb(b.BeginReq(hr.G.G.ChainID, appHash)), Txs: b.Txs, End: pb(&abci.RequestEndBlock{Height: b.Height})})
		appHash = hr.Results[bi].Commit.Data
		spec.CheckTxs = append(spec.CheckTxs, b.Txs...)
		spec.CheckTxs = append(spec.CheckTxs, alts[b.Height]...)
	}
	for _, q := range qs {
		spec.Queries = append(spec.Queries, StressQuery{q.Path, q.Data})
	}
	rsp, err := r.Call(&Cmd{Op: "stress", Stress: spec})
	if err != nil {
		return nil, err
	}
	out := &stressOutcome{res: rsp.Stress}
	_ = r.Stop()
	out.stderr = r.StderrAll()
	out.races = raceRe.FindAllString(out.stderr, -1)
	return out, nil
}

// compareStressConsensus checks the consensus responses of a stress run against the quiet run.
func compareStressConsensus(hr *HistRun, sr *StressResult) string {
	k := 0
	next := func() []byte {
		if k >= len(sr.Consensus) {
			return nil
		}
		k++
		if sr.Consensus[k-1] == nil {
			return []byte{} // gob drops empty slices
		}
		return sr.Consensus[k-1]
	}
	for bi, b := range hr.Blocks[:len(hr.Results)] {
		res := &BlockResult{Begin: &abci.ResponseBeginBlock{}, End: &abci.ResponseEndBlock{}, Commit: &abci.ResponseCommit{}}
		bz := next()
		if bz == nil {
			return fmt.Sprintf("block %d: consensus stream ends early (%s)", b.Height, sr.Err)
		}
		_ = res.Begin.Unmarshal(bz)
		for range b.Txs {
			dr := &abci.ResponseDeliverTx{}
			bz := next()
			if bz == nil {
				return fmt.Sprintf("block %d: consensus stream ends early", b.Height)
			}
			_ = dr.Unmarshal(bz)
			res.Txs = append(res.Txs, dr)
		}
		if bz = next(); bz == nil {
			return fmt.Sprintf("block %d: consensus stream ends early", b.Height)
		}
		_ = res.End.Unmarshal(bz)
		if bz = next(); bz == nil {
			return fmt.Sprintf("block %d: consensus stream ends early", b.Height)
		}
		_ = res.Commit.Unmarshal(bz)
		if a, bb := hr.Results[bi].consensusView(), res.consensusView(); a != bb {
			return fmt.Sprintf("block %d differs (%s)\n--- quiet\n%s--- under concurrent traffic\n%s", b.Height, diffFirst(a, bb), a, bb)
		}
	}
	return ""
}

func (c *Ctx) c06Concurrent(i int, hr *HistRun, o *HistOpts, alts map[int64][][]byte, qs []queryTpl) {
	reps := c.N(1, 3)
	for rep := 0; rep < reps; rep++ {
		out, err := runStress(c, i*10+rep, "c06", hr, alts, qs, 4+(i+rep)%5, true)
		if err != nil {
			c.Err(i, "stress", err)
			return
		}
		c.Count("concurrent-runs", 1)
		c.Eval(1)
		nq, nc := 0, 0
		for _, ev := range out.res.Events {
			switch ev.Kind {
			case "query":
				nq++
			case "checktx":
				nc++
			}
			if ev.Kind != "commit" {
				// interleaving signature: after which consensus call the client call was issued and how many consensus calls it overlapped
				after := "start"
				if k := ev.Phase0 - out.res.PhaseBase - 1; k >= 0 && int(k) < len(out.res.Phases) {
					after = out.res.Phases[k]
				}
				span := ev.Phase1 - ev.Phase0
				if span > 3 {
					span = 3
				}
				sig := fmt.Sprintf("%s issued-after-%s overlapping-%d-consensus-calls", ev.Kind, after, span)
				c.SetAdd("concurrent-interleavings", sig)
				c.Distinct("concurrent/" + sig)
			}
		}
		c.Count("concurrent.queries", nq)
		c.Count("concurrent.checktxs", nc)
		for _, rp := range out.races {
			sig := raceSignature(rp)
			c.Violation(i, "data-race:"+sig, fmt.Sprintf("history %s: the race detector reported\n%s", o.Name, rp), hr.replayDoc())
		}
		if strings.Contains(out.stderr, "fatal error:") || strings.Contains(out.stderr, "panic:") {
			c.Violation(i, "concurrent-crash:"+firstLine(out.stderr), out.stderr, hr.replayDoc())
		}
		if d := compareStressConsensus(hr, out.res); d != "" {
			c.Violation(i, "concurrent-traffic-changes-block-result", fmt.Sprintf("history %s: %s", o.Name, d), hr.replayDoc())
		}
	}
}

func init() { checks["C06"] = checkC06 }
