package main

// Model-free 2-safety monitors: replica determinism (C01), failed-transaction erasure (C05),
// CheckTx/Query noise isolation (C06), restart equivalence (C07).

import (
	"fmt"
	"math/rand"
	"os"
	"path/filepath"
	"strings"
	"time"

	abci "github.com/tendermint/tendermint/abci/types"
)

// openReplica spawns a replica, runs Info and (for a fresh directory) InitChain.
func openReplica(c *Ctx, dir string, g *GenCfg, opt SpawnOpt, fresh bool) (*Replica, *abci.ResponseInfo, error) {
	r, err := Spawn(dir, opt)
	if err != nil {
		return nil, nil, err
	}
	info, err := r.Info()
	if err != nil {
		r.Close()
		return nil, nil, err
	}
	if fresh {
		if _, err := r.InitChain(g.InitChainReq()); err != nil {
			r.Close()
			return nil, nil, err
		}
	}
	return r, info, nil
}

func twinOpts(c *Ctx, id string, i int) *HistOpts {
	rng := c.Rng("twin-"+id, i)
	o := basePreset()
	o.Name = fmt.Sprintf("%s-h%d", id, i)
	o.Params = randParams(rng)
	o.Gen.NVal = 1 + rng.Intn(6)
	o.Gen.NHolders = 3 + rng.Intn(5)
	o.Blocks = 25
	o.Gen.EVM = true
	o.UseRef = true
	for k, v := range evmWeights() {
		o.Gen.W[k] = v
	}
	if id == "C01" && i%4 == 1 {
		// a genesis with more validators than the limit and equal powers across the cut
		o.Gen.OverLimitGenesis = true
		o.Gen.EqualPower = true
		o.Gen.NVal = int(o.Params.MaxValidatorCnt) + 1 + rng.Intn(3)
	} else if o.Gen.NVal > int(o.Params.MaxValidatorCnt) {
		o.Gen.NVal = int(o.Params.MaxValidatorCnt)
	}
	return o
}

func evmWeights() map[string]int {
	return map[string]int{"deploy": 6, "call": 14, "xfer2contract": 4}
}

// ---- C01 -------------------------------------------------------------------------

func checkC01(c *Ctx) {
	c.rule = "each generated history (all eight transaction types incl. contracts, valid and invalid, absentee/evidence patterns) is executed on a primary replica and replayed on twin replicas that differ in process, data directory, start time (>2s later), TZ, GOMAXPROCS, GOGC, build flavour (-race) and calling convention (one twin is driven through DeliverTxAsync/CheckTxAsync and the response callback, as the consensus engine does); per-call comparison of DeliverTx code/data/gas, validator updates, app hash, Info; distinct = distinct final app hash"
	n := c.N(24, 400)
	type prim struct {
		hr *HistRun
		o  *HistOpts
	}
	prims := make([]*prim, n)
	c.Parallel(n, 0, func(i int) {
		o := twinOpts(c, "C01", i)
		if !c.Quick() {
			o.Blocks = 40
		}
		if i%2 == 0 {
			o.Mempool = 500 // the primary also serves mempool checks, the twins see the blocks only
		}
		if i%3 == 0 {
			o.Gen.NReserved = 6
			withScenarios(o, scenVanityBurst(int64(2+i%5)))
		}
		hr := runHistory(c, i, c.Rng("hist-C01", i), o)
		hr.Report("C01")
		prims[i] = &prim{hr, o}
	})
	time.Sleep(2100 * time.Millisecond) // a wall-clock second leaking into execution now lands elsewhere
	c.Parallel(n, 0, func(i int) {
		p := prims[i]
		if p == nil || len(p.hr.Results) == 0 {
			return
		}
		hr := p.hr
		variants := []struct {
			name    string
			opt     SpawnOpt
			sub     string
			restart int // per-mille probability of a process restart after a commit ("independently started" replicas)
		}{
			{"tz-gomaxprocs1-gogc5", SpawnOpt{Env: []string{"TZ=Asia/Seoul", "GOMAXPROCS=1", "GOGC=5", "RV_DELIVER=async"}}, "twin-a/" + strings.Repeat("deep/", 8), 0},
			{"race-gogcoff", SpawnOpt{Race: true, Env: []string{"TZ=America/Anchorage", "GOGC=off", "GOMAXPROCS=16"}}, "b", 0},
			{"restarting", SpawnOpt{Env: []string{"TZ=UTC", "GOMAXPROCS=3"}}, "c", 250},
		}
		rrng := c.Rng("c01-restart", i)
		if c.Quick() && i%3 != 0 {
			variants[1].opt.Race = false // the race build is ~8x slower: every third history in quick
		}
		for _, v := range variants {
			dir := filepath.Join(c.DirI(i, fmt.Sprintf("c01-%d", i)), v.sub)
			r, info, err := openReplica(c, dir, hr.G.G, v.opt, true)
			if err != nil {
				c.Err(i, "twin open", err)
				return
			}
			_ = info
			var appHash []byte
			for bi, b := range hr.Blocks[:len(hr.Results)] {
				res, err := execBlock(r, hr.G.G.ChainID, b, appHash)
				if err != nil {
					c.Err(i, fmt.Sprintf("twin %s block %d", v.name, b.Height), err)
					r.Close()
					return
				}
				appHash = res.Commit.Data
				c.Eval(1)
				if a, bb := hr.Results[bi].consensusView(), res.consensusView(); a != bb {
					c.Violation(i, "replica-divergence", fmt.Sprintf("history %s block %d: primary and twin %s differ\n--- primary\n%s--- twin\n%s", p.o.Name, b.Height, v.name, a, bb), hr.replayDoc())
					r.Close()
					return
				}
				if a, bb := eventsView(hr.Results[bi].End.Events)+eventsView(hr.Results[bi].Begin.Events), eventsView(res.End.Events)+eventsView(res.Begin.Events); a != bb {
					c.Note("block events differ between replicas (not a listed observable)")
				}
				doRestart := v.restart > 0 && bi+1 < len(hr.Results) && rrng.Intn(1000) < v.restart
				if !doRestart && v.restart > 0 && bi+1 < len(hr.Results) && bi+1 < len(hr.Txs) {
					// directed: the restarting twin also restarts right before a block whose contract calls read the
					// chain's past (BLOCKHASH) - whatever a process keeps in memory about earlier blocks is gone then
					for _, t := range hr.Txs[bi+1] {
						if strings.Contains(t.Label, "blockhash") {
							doRestart = true
							c.Count("twin-restarts-before-blockhash-call", 1)
							break
						}
					}
				}
				if doRestart {
					if err := r.Stop(); err != nil {
						c.Err(i, "twin stop", err)
						return
					}
					r, _, err = openReplica(c, dir, hr.G.G, v.opt, false)
					if err != nil {
						c.Err(i, "twin reopen", err)
						return
					}
					_ = r.SetTimes(hr.Times)
					c.Count("twin-process-restarts", 1)
				}
			}
			info2, err := r.Info()
			if err == nil && len(hr.Results) > 0 {
				last := hr.Results[len(hr.Results)-1]
				if info2.LastBlockHeight != int64(len(hr.Results)) || hx(info2.LastBlockAppHash) != hx(last.Commit.Data) {
					c.Violation(i, "info-divergence", fmt.Sprintf("twin %s Info reports height %d hash %x, primary committed height %d hash %x", v.name, info2.LastBlockHeight, info2.LastBlockAppHash, len(hr.Results), last.Commit.Data), hr.replayDoc())
				}
			}
			_ = r.Stop()
			c.Count("twin-replays."+v.name, 1)
			if v.opt.Race {
				c.Count("twin-replays.race-binary", 1)
			}
		}
		c.Distinct(hx(hr.AppHash))
		if i < 2 {
			c.Sample(map[string]interface{}{"history": p.o.Name, "blocks": len(hr.Results), "accepted": hr.Accepted, "rejected": hr.Rejected, "final_app_hash": hx(hr.AppHash)})
		}
	})
	c.Require("twin-replays.tz-gomaxprocs1-gogc5")
}

// ---- C05 -------------------------------------------------------------------------

func semanticDumpStr(s *MState) string {
	var sb strings.Builder
	for _, k := range sortedKeys(s.Accounts) {
		a := s.Accounts[k]
		if a.empty() {
			continue
		}
		fmt.Fprintf(&sb, "A %s n=%d b=%s name=%q code=%s url=%q\n", k, a.Nonce, a.Bal, a.Name, a.Code, a.DocURL)
	}
	for _, k := range sortedKeys(s.Delegatees) {
		fmt.Fprintf(&sb, "D %s %s\n", k, delegStr(s.Delegatees[k], true))
	}
	for _, k := range sortedKeys(s.Frozen) {
		fmt.Fprintf(&sb, "F %s %s\n", k, stakeStr(s.Frozen[k]))
	}
	for _, k := range sortedKeys(s.Rewards) {
		fmt.Fprintf(&sb, "R %s %s\n", k, rewardStr(s.Rewards[k]))
	}
	fmt.Fprintf(&sb, "P %+v\n", s.Params)
	for _, k := range sortedKeys(s.Proposals) {
		fmt.Fprintf(&sb, "O %s %s\n", k, propStr(s.Proposals[k]))
	}
	for _, k := range sortedKeys(s.FrozenProps) {
		fmt.Fprintf(&sb, "Z %s %s\n", k, propStr(s.FrozenProps[k]))
	}
	return sb.String()
}

func firstDiffLine(a, b string) string {
	la, lb := strings.Split(a, "\n"), strings.Split(b, "\n")
	for i := 0; i < len(la) || i < len(lb); i++ {
		x, y := "", ""
		if i < len(la) {
			x = la[i]
		}
		if i < len(lb) {
			y = lb[i]
		}
		if x != y {
			return fmt.Sprintf("  with failed txs:    %s\n  without failed txs: %s", x, y)
		}
	}
	return ""
}

func contractsStr(d *Dump) string {
	var sb strings.Builder
	for _, ct := range d.Contracts {
		fmt.Fprintf(&sb, "C %s exist=%v code=%s storage=%v\n", ct.Addr, ct.Exist, ct.Code, ct.Storage)
	}
	return sb.String()
}

// sameOutcome: both succeed with the same data and gas, or both fail. Which non-zero code a failing transaction
// reports is not part of the property (it may depend on whether an empty account record exists, see assumptions).
func sameOutcome(x, y *abci.ResponseDeliverTx) bool {
	if (x.Code == 0) != (y.Code == 0) {
		return false
	}
	if x.Code != 0 {
		return true
	}
	return hx(x.Data) == hx(y.Data) && x.GasUsed == y.GasUsed
}

func checkC05(c *Ctx) {
	c.rule = "erasure twin: replica A executes generated blocks in which 30-70% of the transactions are intended-invalid (one defect each from the catalogue, incl. EVM reverts / out-of-gas); replica A' executes the same blocks with exactly the transactions that failed on A removed; after every commit the semantic state dumps (all accounts, stakes, unbonding stakes, rewards, proposals, parameters, contract code and storage) and the results of the surviving transactions must be equal; distinct = distinct (history, block) pairs that contained at least one failed transaction"
	c.assumptions = []string{"entirely empty account records (materialised by looking up a receiver) are not state in the sense of the property", "the sum of EVM gas limits per block stays below the block gas pool"}
	n := c.N(36, 600)
	c.Parallel(n, 0, func(i int) {
		o := twinOpts(c, "C05", i)
		o.Gen.InvalidPct = 30 + c.Rng("c05pct", i).Intn(41)
		o.Gen.MaxTx = 12
		o.Blocks = c.N(30, 45)
		if i%3 == 0 {
			// armed stake limiter and a transaction rejected by it in the middle of related changes
			o.Gen.NVal, o.Gen.NReserved = 3, 6
			o.Params.MaxValidatorCnt = 6
			o.Params.MaxUpdatableStakeRatio, o.Params.MaxIndividualStakeRatio = 33, 100000
			o.Params.MinSelfStakeRatio = 0
			withScenarios(o, scenLimiterRejection(int64(3+i%5)), scenForcedRelease(int64(9+i%4)))
		} else if i%3 == 1 {
			o.Gen.NReserved = 6
			withScenarios(o, scenExitRestake(int64(3+i%5)), scenTwinProposals(int64(4+i%6), false))
		} else if i%6 == 2 {
			// individual power share limit armed: a rejected oversized delegation followed by small ones to the same validator
			o.Gen.NVal, o.Gen.NReserved = 4, 6
			o.Params.MaxValidatorCnt = 6
			o.Params.MaxUpdatableStakeRatio, o.Params.MaxIndividualStakeRatio = 100, 40
			o.Params.MinSelfStakeRatio = 0
			withScenarios(o, scenIndividualLimit(int64(3+i%4)))
		}
		hr := runHistory(c, i, c.Rng("hist-C05", i), o)
		hr.Report("C05")
		if len(hr.Results) == 0 {
			return
		}
		dir := c.DirI(i, fmt.Sprintf("c05-%d-twin", i))
		r, _, err := openReplica(c, dir, hr.G.G, SpawnOpt{}, true)
		if err != nil {
			c.Err(i, "twin open", err)
			return
		}
		defer r.Close()
		// a second full replica gives the dumps of A (the primary process has exited)
		dirA := c.DirI(i, fmt.Sprintf("c05-%d-full", i))
		ra, _, err := openReplica(c, dirA, hr.G.G, SpawnOpt{}, true)
		if err != nil {
			c.Err(i, "twin open", err)
			return
		}
		defer ra.Close()
		// third replica: per block exactly one (PRNG-chosen) failed transaction is removed; every other
		// transaction - including the other failed ones - must behave exactly as next to it
		dirC := c.DirI(i, fmt.Sprintf("c05-%d-one", i))
		rc, _, err := openReplica(c, dirC, hr.G.G, SpawnOpt{}, true)
		if err != nil {
			c.Err(i, "twin open", err)
			return
		}
		defer rc.Close()
		var hashC []byte
		orng := c.Rng("c05-one", i)
		var contractAddrs [][]byte
		if hr.M.Ref != nil {
			for _, k := range sortedKeys(hr.M.Ref.Contracts) {
				contractAddrs = append(contractAddrs, addrBytes(k))
			}
		}
		var hashA, hashB []byte
		for bi, b := range hr.Blocks[:len(hr.Results)] {
			full := hr.Results[bi]
			resA, err := execBlock(ra, hr.G.G.ChainID, b, hashA)
			if err != nil {
				c.Err(i, "replica A", err)
				return
			}
			hashA = resA.Commit.Data
			eb := *b
			eb.Txs = nil
			var kept []int
			failed := 0
			for ti, tx := range b.Txs {
				if full.Txs[ti].Code == 0 {
					eb.Txs = append(eb.Txs, tx)
					kept = append(kept, ti)
				} else {
					failed++
				}
			}
			resB, err := execBlock(r, hr.G.G.ChainID, &eb, hashB)
			if err != nil {
				c.Err(i, "replica A'", err)
				return
			}
			hashB = resB.Commit.Data
			c.Eval(1)
			for k, ti := range kept {
				x, y := full.Txs[ti], resB.Txs[k]
				if sameOutcome(x, y) == false {
					c.Violation(i, "erasure-changes-later-result", fmt.Sprintf("history %s block %d: tx %d (%s) returns code=%d data=%x gasUsed=%d next to the failed transactions but code=%d data=%x gasUsed=%d without them",
						o.Name, b.Height, ti, hr.Txs[bi][ti].Label, x.Code, x.Data, x.GasUsed, y.Code, y.Data, y.GasUsed), hr.replayDoc())
					return
				}
			}
			// single-erasure twin
			var failedIdx []int
			for ti := range b.Txs {
				if full.Txs[ti].Code != 0 {
					failedIdx = append(failedIdx, ti)
				}
			}
			ob := *b
			drop := -1
			if len(failedIdx) > 0 {
				drop = failedIdx[orng.Intn(len(failedIdx))]
				ob.Txs = nil
				for ti, tx := range b.Txs {
					if ti != drop {
						ob.Txs = append(ob.Txs, tx)
					}
				}
			}
			resC, err := execBlock(rc, hr.G.G.ChainID, &ob, hashC)
			if err != nil {
				c.Err(i, "replica A-one", err)
				return
			}
			hashC = resC.Commit.Data
			k := 0
			for ti := range b.Txs {
				if ti == drop {
					continue
				}
				x, y := full.Txs[ti], resC.Txs[k]
				k++
				if sameOutcome(x, y) == false {
					c.Violation(i, "failed-tx-influences-later-tx", fmt.Sprintf("history %s block %d: tx %d (%s) returns code=%d gasUsed=%d next to the failed tx %d (%s, code %d) but code=%d gasUsed=%d when that failed transaction is left out",
						o.Name, b.Height, ti, hr.Txs[bi][ti].Label, x.Code, x.GasUsed, drop, hr.Txs[bi][drop].Label, full.Txs[drop].Code, y.Code, y.GasUsed), hr.replayDoc())
					return
				}
			}
			if drop >= 0 {
				c.Count("single-erasures", 1)
			}
			da, err := ra.DumpAt(b.Height, contractAddrs)
			if err != nil {
				c.Err(i, "dump A", err)
				return
			}
			if drop >= 0 {
				dc, err := rc.DumpAt(b.Height, contractAddrs)
				if err != nil {
					c.Err(i, "dump A-one", err)
					return
				}
				if sa, sc := semanticDumpStr(fromDump(da))+contractsStr(da), semanticDumpStr(fromDump(dc))+contractsStr(dc); sa != sc {
					c.Violation(i, "failed-tx-left-a-trace", fmt.Sprintf("history %s block %d: state differs from the run without the failed transaction %d (%s)\n%s", o.Name, b.Height, drop, hr.Txs[bi][drop].Label, firstDiffLine(sa, sc)), hr.replayDoc())
					return
				}
			}
			db, err := r.DumpAt(b.Height, contractAddrs)
			if err != nil {
				c.Err(i, "dump A'", err)
				return
			}
			sa, sb := semanticDumpStr(fromDump(da))+contractsStr(da), semanticDumpStr(fromDump(db))+contractsStr(db)
			if sa != sb {
				var labels []string
				for ti := range b.Txs {
					if full.Txs[ti].Code != 0 {
						labels = append(labels, fmt.Sprintf("tx%d:%s:code%d", ti, hr.Txs[bi][ti].Label, full.Txs[ti].Code))
					}
				}
				c.Violation(i, "failed-tx-left-a-trace", fmt.Sprintf("history %s block %d: state differs from the run without the failed transactions %v\n%s", o.Name, b.Height, labels, firstDiffLine(sa, sb)), hr.replayDoc())
				return
			}
			if failed > 0 {
				c.Distinct(fmt.Sprintf("%s/%d", o.Name, b.Height))
				c.Count("blocks-with-failed-txs", 1)
				c.Count("failed-txs-erased", failed)
			}
			for ti := range b.Txs {
				if full.Txs[ti].Code != 0 {
					c.SetAdd("failure-kinds", strings.SplitN(hr.Txs[bi][ti].Label, "(", 2)[0])
				}
			}
		}
		if i < 2 {
			c.Sample(map[string]interface{}{"history": o.Name, "blocks": len(hr.Results), "accepted": hr.Accepted, "rejected": hr.Rejected})
		}
	})
	c.Require("blocks-with-failed-txs")
}

// ---- C07 -------------------------------------------------------------------------

func checkC07(c *Ctx) {
	c.rule = "restart twin: a continuous replica and a replica that is stopped (graceful Stop, process exit) and restarted from its data directory at chosen block boundaries execute the same history; Info after each restart and every later consensus response / app hash must be equal; modes: one restart at each single boundary, restarts at every boundary, random subsets; distinct = distinct (history, restart set)"
	n := c.N(20, 150)
	c.Parallel(n, 0, func(i int) {
		rng := c.Rng("c07", i)
		o := twinOpts(c, "C07", i)
		o.Gen.NVal = 3 + rng.Intn(4)
		o.Params.MaxValidatorCnt = int64(o.Gen.NVal)
		if rng.Intn(2) == 0 {
			o.Params.MaxValidatorCnt = int64(2 + rng.Intn(3))
			if o.Gen.NVal > int(o.Params.MaxValidatorCnt) {
				o.Gen.NVal = int(o.Params.MaxValidatorCnt)
			}
		}
		o.Gen.W["stake"], o.Gen.W["delegate"], o.Gen.W["unstake"], o.Gen.W["proposal"], o.Gen.W["vote"] = 20, 20, 15, 12, 20
		o.Blocks = c.N(24, 30)
		if i%6 == 0 {
			// restarts at every boundary of a history in which governance lowers the validator limit below the
			// current set: one of the restarts falls right after the block with which the new limit comes into force
			if o.Gen.NVal < 3 {
				o.Gen.NVal = 3
			}
			o.Params.MaxValidatorCnt = int64(o.Gen.NVal)
			withScenarios(o, scenParamChange(int64(3+c.Rng("c07-scen", i).Intn(4)), "maxValidatorCnt"))
		}
		hr := runHistory(c, i, c.Rng("hist-C07", i), o)
		hr.Report("C07")
		nb := len(hr.Results)
		if nb == 0 {
			return
		}
		// restart sets
		var sets [][]int64
		switch i % 3 {
		case 0: // every boundary
			var s []int64
			for h := int64(1); h < int64(nb); h++ {
				s = append(s, h)
			}
			sets = append(sets, s)
		case 1: // single restarts at several boundaries
			k := c.N(6, nb-1)
			for _, h := range rng.Perm(nb - 1)[:min(k, nb-1)] {
				sets = append(sets, []int64{int64(h + 1)})
			}
		default: // random subsets
			for s := 0; s < c.N(3, 8); s++ {
				var set []int64
				for h := int64(1); h < int64(nb); h++ {
					if rng.Intn(4) == 0 {
						set = append(set, h)
					}
				}
				sets = append(sets, set)
			}
		}
		for si, set := range sets {
			c.restartRun(i, si, hr, o, set)
		}
		if i < 2 {
			c.Sample(map[string]interface{}{"history": o.Name, "blocks": nb, "restart_sets": sets})
		}
	})
	c.Require("restarts")
}

func (c *Ctx) restartRun(i, si int, hr *HistRun, o *HistOpts, set []int64) {
	at := map[int64]bool{}
	for _, h := range set {
		at[h] = true
	}
	dir := c.DirI(i, fmt.Sprintf("c07-%d-%d", i, si))
	defer os.RemoveAll(dir)
	r, _, err := openReplica(c, dir, hr.G.G, SpawnOpt{}, true)
	if err != nil {
		c.Err(i, "open", err)
		return
	}
	defer func() { r.Close() }()
	var appHash []byte
	for bi, b := range hr.Blocks[:len(hr.Results)] {
		res, err := execBlock(r, hr.G.G.ChainID, b, appHash)
		if err != nil {
			c.Err(i, fmt.Sprintf("restart-twin block %d", b.Height), err)
			return
		}
		appHash = res.Commit.Data
		c.Eval(1)
		if a, bb := hr.Results[bi].consensusView(), res.consensusView(); a != bb {
			last := int64(0)
			for _, h := range set {
				if h < b.Height && h > last {
					last = h
				}
			}
			sig := "restart-divergence"
			if strings.Contains(diffFirst(a, bb), "vu ") {
				sig = "restart-divergence:validator-updates"
			}
			c.Violation(i, sig, fmt.Sprintf("history %s: restarted after block %d, block %d differs from the continuous replica\n--- continuous\n%s--- restarted\n%s", o.Name, last, b.Height, a, bb), hr.replayDoc())
			return
		}
		if at[b.Height] {
			if err := r.Stop(); err != nil {
				c.Err(i, "stop", err)
				return
			}
			r, _, err = openReplica(c, dir, hr.G.G, SpawnOpt{}, false)
			if err != nil {
				c.Err(i, "reopen", err)
				return
			}
			_ = r.SetTimes(hr.Times)
			info, err := r.Info()
			if err != nil {
				c.Err(i, "info", err)
				return
			}
			c.Count("restarts", 1)
			if info.LastBlockHeight != b.Height || hx(info.LastBlockAppHash) != hx(appHash) {
				c.Violation(i, "restart-info", fmt.Sprintf("history %s: after restart at %d Info reports height %d hash %x, expected %d %x", o.Name, b.Height, info.LastBlockHeight, info.LastBlockAppHash, b.Height, appHash), hr.replayDoc())
				return
			}
		}
	}
	c.Distinct(fmt.Sprintf("%s/%v", o.Name, set))
}

func diffFirst(a, b string) string {
	la, lb := strings.Split(a, "\n"), strings.Split(b, "\n")
	for i := 0; i < len(la) || i < len(lb); i++ {
		x, y := "", ""
		if i < len(la) {
			x = la[i]
		}
		if i < len(lb) {
			y = lb[i]
		}
		if x != y {
			return x + " | " + y
		}
	}
	return ""
}

func min(a, b int) int {
	if a < b {
		return a
	}
	return b
}

var _ = rand.New

func init() {
	checks["C01"] = checkC01
	checks["C05"] = checkC05
	checks["C07"] = checkC07
}
