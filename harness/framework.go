package main

// Check framework: run context, verdicts (violated / held / inconclusive), known findings,
// evidence files, replay files, case scheduling.

import (
	"encoding/json"
	"flag"
	"fmt"
	"math/rand"
	"os"
	"os/exec"
	"path/filepath"
	"regexp"
	"runtime"
	"sort"
	"strconv"
	"strings"
	"sync"
	"time"
)

var verifRoot = func() string {
	if v := os.Getenv("VERIF_ROOT"); v != "" {
		return v
	}
	return "/verif"
}()

type Finding struct {
	Property    string `json:"property"`
	Status      string `json:"status"` // "known" | "fixed"
	Signature   string `json:"signature"`
	Commit      string `json:"commit,omitempty"`
	Description string `json:"description"`
	re          *regexp.Regexp
}

type violation struct {
	Sig    string
	Detail string
	Replay string
}

type Ctx struct {
	ID      string
	Tier    string
	Seed    int64
	Scratch string
	Only    int // replay: run only this case (-1 = all)
	Level   string

	mtx          sync.Mutex
	start        time.Time
	violations   []violation
	knownSeen    map[string]int
	inconclusive []string
	notes        map[string]int
	evals        int64
	distinct     map[string]struct{}
	samples      []interface{}
	counters     map[string]int64
	sets         map[string]map[string]struct{}
	rule         string
	assumptions  []string
	findings     []*Finding
	required     []string // counters that must be > 0 for a conclusive run
}

func loadFindings() []*Finding {
	bz, err := os.ReadFile(filepath.Join(verifRoot, "known_findings.json"))
	if err != nil {
		return nil
	}
	var doc struct {
		Findings []*Finding `json:"findings"`
	}
	if err := json.Unmarshal(bz, &doc); err != nil {
		fmt.Fprintln(os.Stderr, "known_findings.json:", err)
		os.Exit(2)
	}
	for _, f := range doc.Findings {
		f.re = regexp.MustCompile("^(?:" + f.Signature + ")$")
	}
	return doc.Findings
}

func newCtx(id, tier string, seed int64) *Ctx {
	c := &Ctx{ID: id, Tier: tier, Seed: seed, Only: -1, Level: "exploration",
		start: time.Now(), knownSeen: map[string]int{}, notes: map[string]int{}, distinct: map[string]struct{}{},
		counters: map[string]int64{}, sets: map[string]map[string]struct{}{}}
	c.findings = loadFindings()
	c.Scratch = filepath.Join(verifRoot, ".build", "scratch", fmt.Sprintf("%s-%d", id, os.Getpid()))
	_ = os.RemoveAll(c.Scratch)
	if err := os.MkdirAll(c.Scratch, 0o755); err != nil {
		panic(err)
	}
	return c
}

func (c *Ctx) Quick() bool { return c.Tier != "thorough" }

// N picks the case count for the tier.
func (c *Ctx) N(quick, thorough int) int {
	if c.Quick() {
		return quick
	}
	return thorough
}

// Rng returns a PRNG determined by (seed, label, index).
func (c *Ctx) Rng(label string, i int) *rand.Rand {
	h := int64(1469598103934665603)
	for _, b := range []byte(label) {
		h ^= int64(b)
		h *= 1099511628211
	}
	return rand.New(rand.NewSource(c.Seed*1000003 + h + int64(i)*7919))
}

func (c *Ctx) Dir(name string) string {
	d := filepath.Join(c.Scratch, name)
	_ = os.MkdirAll(d, 0o755)
	return d
}

// DirI returns a scratch directory that belongs to case i; it is removed when the case function returns.
func (c *Ctx) DirI(i int, name string) string {
	d := filepath.Join(c.Scratch, fmt.Sprintf("case%d", i), name)
	_ = os.MkdirAll(d, 0o755)
	return d
}

func (c *Ctx) Eval(n int) {
	c.mtx.Lock()
	c.evals += int64(n)
	c.mtx.Unlock()
}

func (c *Ctx) Distinct(key string) {
	c.mtx.Lock()
	c.distinct[key] = struct{}{}
	c.mtx.Unlock()
}

func (c *Ctx) Count(name string, n int) {
	c.mtx.Lock()
	c.counters[name] += int64(n)
	c.mtx.Unlock()
}

// SetAdd records a member of a named set of observed things (sizes are reported).
func (c *Ctx) SetAdd(name, member string) {
	c.mtx.Lock()
	m := c.sets[name]
	if m == nil {
		m = map[string]struct{}{}
		c.sets[name] = m
	}
	m[member] = struct{}{}
	c.mtx.Unlock()
}

func (c *Ctx) Sample(v interface{}) {
	c.mtx.Lock()
	if len(c.samples) < 6 {
		c.samples = append(c.samples, v)
	}
	c.mtx.Unlock()
}

func (c *Ctx) Note(s string) {
	c.mtx.Lock()
	c.notes[s]++
	c.mtx.Unlock()
}

func (c *Ctx) Require(counters ...string) { c.required = append(c.required, counters...) }

func (c *Ctx) Inconclusive(reason string) {
	c.mtx.Lock()
	c.inconclusive = append(c.inconclusive, reason)
	c.mtx.Unlock()
}

// Violation reports that a monitor fired. sig identifies *what* failed (matched against
// known_findings.json); replay is any JSON-able description of the failing case.
func (c *Ctx) Violation(caseIdx int, sig, detail string, replay interface{}) {
	c.mtx.Lock()
	defer c.mtx.Unlock()
	for _, f := range c.findings {
		if f.Property == c.ID && f.Status == "known" && f.re.MatchString(sig) {
			c.knownSeen[f.Signature]++
			return
		}
	}
	for _, v := range c.violations {
		if v.Sig == sig {
			return // one replay per distinct signature
		}
	}
	dir := filepath.Join(verifRoot, "replays", c.ID)
	_ = os.MkdirAll(dir, 0o755)
	path := filepath.Join(dir, fmt.Sprintf("seed%d-case%d-%d.json", c.Seed, caseIdx, len(c.violations)))
	doc := map[string]interface{}{
		"property": c.ID, "seed": c.Seed, "tier": c.Tier, "case": caseIdx, "signature": sig, "detail": detail, "case_data": replay,
	}
	bz, _ := json.MarshalIndent(doc, "", " ")
	_ = os.WriteFile(path, bz, 0o644)
	c.violations = append(c.violations, violation{Sig: sig, Detail: detail, Replay: path})
}

// Err classifies an error from the replica layer.
func (c *Ctx) Err(caseIdx int, where string, err error) {
	switch e := err.(type) {
	case *ErrWatchdog:
		c.Inconclusive(where + ": " + e.Error())
	case *ErrDead:
		c.Violation(caseIdx, "replica-died:"+where+":"+firstLine(e.Stderr), e.Error(), nil)
	default:
		c.Inconclusive(where + ": " + err.Error())
	}
}

func firstLine(s string) string {
	if i := strings.IndexByte(s, '\n'); i >= 0 {
		s = s[:i]
	}
	if len(s) > 160 {
		s = s[:160]
	}
	return s
}

// Parallel runs fn(i) for i in [0,n) on up to `workers` goroutines (respecting replay filter).
func (c *Ctx) Parallel(n, workers int, fn func(i int)) { c.parallel(n, workers, fn, true) }

// ParallelInner is for fan-out inside one case: its indices are not case numbers, nothing is cleaned up.
func (c *Ctx) ParallelInner(n, workers int, fn func(i int)) { c.parallel(n, workers, fn, false) }

func (c *Ctx) parallel(n, workers int, fn func(i int), clean bool) {
	if workers <= 0 {
		workers = runtime.NumCPU()
	}
	var wg sync.WaitGroup
	ch := make(chan int)
	for w := 0; w < workers; w++ {
		wg.Add(1)
		go func() {
			defer wg.Done()
			for i := range ch {
				func() {
					defer func() {
						if r := recover(); r != nil {
							buf := make([]byte, 1<<14)
							n := runtime.Stack(buf, false)
							c.Inconclusive(fmt.Sprintf("harness panic in case %d: %v\n%s", i, r, buf[:n]))
						}
					}()
					fn(i)
				}()
				if clean {
					_ = os.RemoveAll(filepath.Join(c.Scratch, fmt.Sprintf("case%d", i)))
				}
			}
		}()
	}
	for i := 0; i < n; i++ {
		if clean && c.Only >= 0 && i != c.Only {
			continue
		}
		ch <- i
	}
	close(ch)
	wg.Wait()
}

func (c *Ctx) Finish() int {
	c.mtx.Lock()
	defer c.mtx.Unlock()
	_ = os.RemoveAll(c.Scratch)

	for _, r := range c.required {
		n := c.counters[r]
		if s, ok := c.sets[r]; ok {
			n = int64(len(s))
		}
		if n == 0 && c.Only < 0 {
			c.inconclusive = append(c.inconclusive, "required event class never observed: "+r)
		}
	}

	cov := map[string]interface{}{
		"evaluations":         c.evals,
		"distinct_nontrivial": len(c.distinct),
		"rule":                c.rule,
		"samples":             c.samples,
	}
	if len(c.samples) == 0 {
		cov["samples"] = []interface{}{"(no case completed)"}
	}
	keys := make([]string, 0, len(c.counters))
	for k := range c.counters {
		keys = append(keys, k)
	}
	sort.Strings(keys)
	obs := map[string]interface{}{}
	for _, k := range keys {
		obs[k] = c.counters[k]
	}
	for k, s := range c.sets {
		obs[k+"#distinct"] = len(s)
		if len(s) <= 160 {
			var ms []string
			for m := range s {
				ms = append(ms, m)
			}
			sort.Strings(ms)
			obs[k+"#members"] = ms
		}
	}
	cov["observed"] = obs
	if len(c.knownSeen) > 0 {
		cov["known_findings_reproduced"] = c.knownSeen
	}
	if len(c.notes) > 0 {
		cov["notes"] = c.notes
	}
	verdict := "held"
	if len(c.violations) > 0 {
		verdict = "violated"
	} else if len(c.inconclusive) > 0 {
		verdict = "inconclusive"
		cov["inconclusive_reasons"] = uniq(c.inconclusive)
	}
	cov["verdict"] = verdict
	assumptions := append([]string{"trusted base: Go toolchain and race detector, Tendermint ABCI/ValidatorSet types, IAVL and goleveldb, go-ethereum EVM interpreter / RLP / secp256k1, the harness's own model and dump accessors"}, c.assumptions...)
	ev := map[string]interface{}{
		"property_id": c.ID,
		"tier":        map[bool]string{true: "quick", false: "thorough"}[c.Quick()],
		"seed":        c.Seed,
		"level":       c.Level,
		"coverage":    cov,
		"assumptions": assumptions,
		"wall_s":      time.Since(c.start).Seconds(),
		"violations":  len(c.violations),
	}
	if c.Only < 0 {
		_ = os.MkdirAll(filepath.Join(verifRoot, "evidence"), 0o755)
		bz, _ := json.MarshalIndent(ev, "", " ")
		_ = os.WriteFile(filepath.Join(verifRoot, "evidence", c.ID+".json"), bz, 0o644)
	}

	var ks []string
	for k := range c.knownSeen {
		ks = append(ks, k)
	}
	sort.Strings(ks)
	for _, k := range ks {
		desc := k
		for _, f := range c.findings {
			if f.Signature == k && f.Property == c.ID {
				desc = f.Description
			}
		}
		fmt.Printf("KNOWN-FINDING: property=%s signature=%q seen=%d: %s\n", c.ID, k, c.knownSeen[k], desc)
	}
	for n, k := range c.notes {
		fmt.Printf("NOTE %s (x%d)\n", n, k)
	}
	fmt.Printf("%s tier=%s seed=%d evaluations=%d distinct=%d wall=%.1fs verdict=%s\n", c.ID, c.Tier, c.Seed, c.evals, len(c.distinct), time.Since(c.start).Seconds(), verdict)
	for _, k := range keys {
		fmt.Printf("  observed %s=%d\n", k, c.counters[k])
	}
	for k, s := range c.sets {
		fmt.Printf("  observed |%s|=%d\n", k, len(s))
	}
	if len(c.violations) > 0 {
		for _, v := range c.violations {
			fmt.Printf("  violation signature: %s\n  detail: %s\n", v.Sig, indent(v.Detail))
			fmt.Printf("VIOLATION property=%s replay=%s\n", c.ID, v.Replay)
		}
		return 1
	}
	if len(c.inconclusive) > 0 {
		for _, r := range uniq(c.inconclusive) {
			fmt.Printf("INCONCLUSIVE %s\n", r)
		}
		return 2
	}
	return 0
}

func indent(s string) string {
	if len(s) > 3000 {
		s = s[:3000] + "…"
	}
	return strings.ReplaceAll(s, "\n", "\n    ")
}

func uniq(in []string) []string {
	m := map[string]bool{}
	var out []string
	for _, s := range in {
		if !m[s] {
			m[s] = true
			out = append(out, s)
		}
	}
	return out
}

type checkFn func(c *Ctx)

var checks = map[string]checkFn{}

func checkMain(args []string) int {
	if len(args) < 1 {
		fmt.Fprintln(os.Stderr, "check: need property id")
		return 2
	}
	id := args[0]
	fs := flag.NewFlagSet("check", flag.ExitOnError)
	tier := fs.String("tier", os.Getenv("VERIF_TIER"), "quick|thorough")
	replay := fs.String("replay", "", "replay file")
	_ = fs.Parse(args[1:])
	if *tier == "" {
		*tier = "quick"
	}
	seed := int64(1)
	if s := os.Getenv("VERIF_SEED"); s != "" {
		if v, err := strconv.ParseInt(s, 10, 64); err == nil {
			seed = v
		}
	}
	only := -1
	if *replay != "" {
		bz, err := os.ReadFile(*replay)
		if err != nil {
			fmt.Fprintln(os.Stderr, err)
			return 2
		}
		var doc struct {
			Seed int64  `json:"seed"`
			Tier string `json:"tier"`
			Case int    `json:"case"`
		}
		if err := json.Unmarshal(bz, &doc); err != nil {
			fmt.Fprintln(os.Stderr, err)
			return 2
		}
		seed, *tier, only = doc.Seed, doc.Tier, doc.Case
	}
	fn, ok := checks[id]
	if !ok {
		fmt.Fprintln(os.Stderr, "no check for", id)
		return 2
	}
	if v := os.Getenv("VERIF_ONLY"); v != "" && only < 0 {
		// development aid: run a single case of the list (no evidence file is written)
		if n, err := strconv.Atoi(v); err == nil {
			only = n
		}
	}
	c := newCtx(id, *tier, seed)
	c.Only = only
	func() {
		defer func() {
			if r := recover(); r != nil {
				buf := make([]byte, 1<<16)
				n := runtime.Stack(buf, false)
				c.Inconclusive(fmt.Sprintf("harness panic: %v\n%s", r, buf[:n]))
			}
		}()
		fn(c)
	}()
	return c.Finish()
}

// ---- shielded sections ---------------------------------------------------------------
// Code under test that runs inside the checker's own process (the signer of C20) can take the checker down with it
// (a panic in a goroutine it started). A shielded section runs in a child process of the same binary; its
// observations are merged into the parent's, and a child that dies is itself an observation about the code it ran.

type shieldDump struct {
	Violations   []violation
	KnownSeen    map[string]int
	Inconclusive []string
	Notes        map[string]int
	Evals        int64
	Distinct     []string
	Samples      []interface{}
	Counters     map[string]int64
	Sets         map[string][]string
}

// Shielded runs fn in a child process (parent side) or directly (child side). It returns true in the child after fn
// has run and the state was written: the caller must then return without doing anything else.
func (c *Ctx) Shielded(name string, fn func()) (isChild bool) {
	if want := os.Getenv("RV_SHIELD"); want != "" {
		if want != name {
			return false
		}
		fn()
		c.mtx.Lock()
		d := shieldDump{Violations: c.violations, KnownSeen: c.knownSeen, Inconclusive: c.inconclusive, Notes: c.notes, Evals: c.evals,
			Samples: c.samples, Counters: c.counters, Sets: map[string][]string{}}
		for k := range c.distinct {
			d.Distinct = append(d.Distinct, k)
		}
		for k, s := range c.sets {
			for m := range s {
				d.Sets[k] = append(d.Sets[k], m)
			}
		}
		c.mtx.Unlock()
		bz, _ := json.Marshal(d)
		_ = os.WriteFile(os.Getenv("RV_SHIELD_OUT"), bz, 0o644)
		os.Exit(0)
	}
	if c.Only >= 0 {
		fn() // replay of a single case: no shield
		return false
	}
	out := filepath.Join(c.Scratch, "shield-"+name+".json")
	errPath := filepath.Join(c.Scratch, "shield-"+name+".stderr")
	_ = os.MkdirAll(c.Scratch, 0o755)
	ef, _ := os.Create(errPath)
	cmd := exec.Command(selfBin, "check", c.ID, "--tier", c.Tier)
	cmd.Env = append(os.Environ(), "RV_SHIELD="+name, "RV_SHIELD_OUT="+out, fmt.Sprintf("VERIF_SEED=%d", c.Seed))
	cmd.Stdout, cmd.Stderr = ef, ef
	runErr := cmd.Run()
	if ef != nil {
		ef.Close()
	}
	bz, rerr := os.ReadFile(out)
	if rerr != nil {
		se, _ := os.ReadFile(errPath)
		s := string(se)
		for _, mark := range []string{"panic:", "fatal error:"} {
			if i := strings.Index(s, mark); i >= 0 {
				s = s[i:]
				break
			}
		}
		if len(s) > 4000 {
			s = s[:4000]
		}
		c.Violation(-1, "checked-code-killed-its-process:"+sigLine(s), fmt.Sprintf("the section %q runs the code under test in-process; the process died (%v):\n%s", name, runErr, s), nil)
		return false
	}
	var d shieldDump
	if err := json.Unmarshal(bz, &d); err != nil {
		c.Inconclusive("shielded section " + name + ": " + err.Error())
		return false
	}
	c.mtx.Lock()
	for _, v := range d.Violations {
		dup := false
		for _, w := range c.violations {
			if w.Sig == v.Sig {
				dup = true
			}
		}
		if !dup {
			c.violations = append(c.violations, v)
		}
	}
	for k, n := range d.KnownSeen {
		c.knownSeen[k] += n
	}
	c.inconclusive = append(c.inconclusive, d.Inconclusive...)
	for k, n := range d.Notes {
		c.notes[k] += n
	}
	c.evals += d.Evals
	for _, k := range d.Distinct {
		c.distinct[k] = struct{}{}
	}
	for _, s := range d.Samples {
		if len(c.samples) < 6 {
			c.samples = append(c.samples, s)
		}
	}
	for k, n := range d.Counters {
		c.counters[k] += n
	}
	for k, ms := range d.Sets {
		if c.sets[k] == nil {
			c.sets[k] = map[string]struct{}{}
		}
		for _, m := range ms {
			c.sets[k][m] = struct{}{}
		}
	}
	c.mtx.Unlock()
	return false
}
