package main

import (
	"fmt"
	"os"
	"path/filepath"
)

func main() {
	if len(os.Args) < 2 {
		fmt.Fprintln(os.Stderr, "usage: rv node <dir> | rv check <id> [--tier quick|thorough] [--replay path] | rv smoke")
		os.Exit(2)
	}
	exe, err := os.Executable()
	if err != nil {
		panic(err)
	}
	selfBin = exe
	if p := os.Getenv("RV_BIN"); p != "" {
		selfBin = p
	}
	selfBinRace = os.Getenv("RV_BIN_RACE")
	if selfBinRace == "" {
		cand := filepath.Join(filepath.Dir(selfBin), "rv-race")
		if _, err := os.Stat(cand); err == nil {
			selfBinRace = cand
		}
	}
	selfBinAsan = os.Getenv("RV_BIN_ASAN")
	if selfBinAsan == "" {
		cand := filepath.Join(filepath.Dir(selfBin), "rv-asan")
		if _, err := os.Stat(cand); err == nil {
			selfBinAsan = cand
		}
	}
	switch os.Args[1] {
	case "node":
		vnodeMain(os.Args[2])
	case "signer":
		signerChildMain(os.Args[2:])
	case "signer-node":
		signerNodeChildMain(os.Args[2:])
	case "smoke":
		os.Exit(smoke())
	case "check":
		os.Exit(checkMain(os.Args[2:]))
	default:
		fmt.Fprintln(os.Stderr, "unknown subcommand", os.Args[1])
		os.Exit(2)
	}
}
