package main

// C19: queries return the state committed at the requested height, read-only.

import (
	"encoding/json"
	"fmt"
	"math/rand"
	"sort"
	"strings"
	"time"

	"github.com/anishathalye/porcupine"
)

// ---- projections: what a query answer must say, derived from a dump ---------------------------

func jstr(v interface{}) string {
	switch t := v.(type) {
	case string:
		return t
	case float64:
		return fmt.Sprintf("%.0f", t)
	case nil:
		return ""
	}
	return fmt.Sprint(v)
}

func stakeProj(m map[string]interface{}) string {
	return fmt.Sprintf("{%s>%s tx=%s p=%s s=%s r=%s}", strings.ToUpper(jstr(m["owner"])), strings.ToUpper(jstr(m["to"])), strings.ToUpper(jstr(m["txhash"])), jstr(m["power"]), jstr(m["startHeight"]), jstr(m["refundHeight"]))
}

func mstakeProj(s *MStake) string {
	return fmt.Sprintf("{%s>%s tx=%s p=%d s=%d r=%d}", s.Owner, s.To, s.TxHash, s.Power, s.Start, s.Refund)
}

// expectedAnswer renders the projection of state s for (path, key); ok=false means "must be an error".
func expectedAnswer(s *MState, path string, key []byte) (string, bool) {
	k := hx(key)
	switch path {
	case "account":
		a := s.Accounts[k]
		if a == nil {
			return fmt.Sprintf("acct n=0 b=0 name= code= url="), true
		}
		return fmt.Sprintf("acct n=%d b=%s name=%s code=%s url=%s", a.Nonce, a.Bal, a.Name, a.Code, a.DocURL), true
	case "delegatee":
		d := s.Delegatees[k]
		if d == nil {
			return "", false
		}
		var st []string
		for _, x := range d.Stakes {
			st = append(st, mstakeProj(x))
		}
		return fmt.Sprintf("deleg self=%d total=%d pub=%s stakes=%v", d.Self, d.Total, d.PubKey, st), true
	case "stakes":
		var st []string
		for _, dk := range sortedKeys(s.Delegatees) {
			for _, x := range s.Delegatees[dk].Stakes {
				if x.Owner == k {
					st = append(st, mstakeProj(x))
				}
			}
		}
		sort.Strings(st)
		return fmt.Sprintf("stakes %v", st), true
	case "stakes/total_power":
		t := int64(0)
		for _, d := range s.Delegatees {
			t += d.Total
		}
		return fmt.Sprintf("%d", t), true
	case "reward":
		r := s.Rewards[k]
		if r == nil {
			return "", false
		}
		return fmt.Sprintf("reward i=%s w=%s s=%s c=%s h=%d", r.Issued, r.Withdrawn, r.Slashed, r.Cumulated, r.Height), true
	case "gov_params":
		return fmt.Sprintf("%+v", s.Params), true
	case "proposal":
		if len(key) == 0 {
			var ids []string
			for _, pk := range sortedKeys(s.Proposals) {
				ids = append(ids, "open:"+pk)
			}
			for _, pk := range sortedKeys(s.FrozenProps) {
				ids = append(ids, "closed:"+pk)
			}
			return fmt.Sprint(ids), true
		}
		if p := s.Proposals[k]; p != nil {
			return "open " + propStr(p), true
		}
		if p := s.FrozenProps[k]; p != nil {
			return "closed " + propStr(p), true
		}
		return "", false
	}
	return "", false
}

// normStatus: a proposal is either still open (whatever the answer calls the phase: waiting, voting) or closed (frozen, rejected)
func normStatus(s string) string {
	if s == "frozen" || s == "rejected" || s == "closed" {
		return "closed"
	}
	return "open"
}

// zeroAnswer: is the answer for a key that does not exist the zero value of its kind? (A node may answer a
// missing record with an error, with nothing, or with an all-zero record: all three say "nothing is recorded".)
func zeroAnswer(path string, key, value []byte) bool {
	got, err := observedAnswer(path, key, value)
	if err != nil {
		return false
	}
	switch path {
	case "reward":
		return strings.HasPrefix(got, "reward i=0 w=0 s=0 c=0 h=") || strings.HasPrefix(got, "reward i= w= s= c= h=")
	case "delegatee":
		return (strings.HasPrefix(got, "deleg self=0 total=0 pub=") || strings.HasPrefix(got, "deleg self= total= pub=")) && strings.HasSuffix(got, "stakes=[]")
	}
	return false
}

func propFromJSON(m map[string]interface{}) *MProposal {
	p := &MProposal{Voters: map[string]*MVoter{}}
	hd, _ := m["header"].(map[string]interface{})
	if hd == nil {
		return p
	}
	geti := func(k string) int64 {
		var n int64
		fmt.Sscan(jstr(hd[k]), &n)
		return n
	}
	p.TxHash = strings.ToUpper(jstr(hd["txHash"]))
	p.Start, p.End, p.Applying, p.TotalPower, p.Majority = geti("startVotingHeight"), geti("endVotingHeight"), geti("applyingHeight"), geti("totalVotingPower"), geti("majorityPower")
	p.OptType = int32(geti("optType"))
	if vs, ok := hd["votes"].(map[string]interface{}); ok {
		for _, v := range vs {
			vm, _ := v.(map[string]interface{})
			if vm == nil {
				continue
			}
			var pw int64
			var ch int32
			fmt.Sscan(jstr(vm["power"]), &pw)
			fmt.Sscan(jstr(vm["choice"]), &ch)
			a := strings.ToUpper(jstr(vm["address"]))
			p.Voters[a] = &MVoter{Addr: a, Power: pw, Choice: ch}
		}
	}
	opt := func(o interface{}) *MOption {
		om, _ := o.(map[string]interface{})
		if om == nil {
			return nil
		}
		var votes int64
		fmt.Sscan(jstr(om["votes"]), &votes)
		raw := jstr(om["option"]) // base64 of the option bytes
		return &MOption{Option: b64dec(raw), Votes: votes}
	}
	if os, ok := m["options"].([]interface{}); ok {
		for _, o := range os {
			if x := opt(o); x != nil {
				p.Options = append(p.Options, x)
			}
		}
	}
	p.Major = opt(m["majorOption"])
	return p
}

func b64dec(s string) string {
	var out []byte
	if err := json.Unmarshal([]byte(`"`+s+`"`), &out); err != nil {
		return s
	}
	return string(out)
}

// observedAnswer parses a query value into the same projection.
func observedAnswer(path string, key []byte, value []byte) (string, error) {
	switch path {
	case "stakes/total_power":
		return strings.TrimSpace(string(value)), nil
	}
	var v interface{}
	if err := json.Unmarshal(value, &v); err != nil {
		return "", fmt.Errorf("answer is not JSON: %v: %q", err, value)
	}
	switch path {
	case "account":
		m, _ := v.(map[string]interface{})
		return fmt.Sprintf("acct n=%s b=%s name=%s code=%s url=%s", jstr(m["nonce"]), jstr(m["balance"]), jstr(m["name"]), strings.ToUpper(jstr(m["code"])), jstr(m["docURL"])), nil
	case "delegatee":
		m, _ := v.(map[string]interface{})
		var st []string
		if ss, ok := m["stakes"].([]interface{}); ok {
			for _, x := range ss {
				if xm, ok := x.(map[string]interface{}); ok {
					st = append(st, stakeProj(xm))
				}
			}
		}
		return fmt.Sprintf("deleg self=%s total=%s pub=%s stakes=%v", jstr(m["selfPower"]), jstr(m["totalPower"]), strings.ToUpper(jstr(m["pubKey"])), st), nil
	case "stakes":
		var st []string
		if ss, ok := v.([]interface{}); ok {
			for _, x := range ss {
				if xm, ok := x.(map[string]interface{}); ok {
					st = append(st, stakeProj(xm))
				}
			}
		}
		sort.Strings(st)
		return fmt.Sprintf("stakes %v", st), nil
	case "reward":
		m, _ := v.(map[string]interface{})
		hh := jstr(m["height"])
		if hh == "" {
			hh = "0"
		}
		return fmt.Sprintf("reward i=%s w=%s s=%s c=%s h=%s", jstr(m["issued"]), jstr(m["withdrawn"]), jstr(m["slashed"]), jstr(m["cumulated"]), hh), nil
	case "gov_params":
		m, _ := v.(map[string]interface{})
		var p DParams
		fmt.Sscan(jstr(m["version"]), &p.Version)
		fmt.Sscan(jstr(m["maxValidatorCnt"]), &p.MaxValidatorCnt)
		p.MinValidatorStake, p.MinDelegatorStake, p.RewardPerPower, p.GasPrice = jstr(m["minValidatorStake"]), jstr(m["minDelegatorStake"]), jstr(m["rewardPerPower"]), jstr(m["gasPrice"])
		fmt.Sscan(jstr(m["lazyRewardBlocks"]), &p.LazyRewardBlocks)
		fmt.Sscan(jstr(m["lazyApplyingBlocks"]), &p.LazyApplyingBlocks)
		fmt.Sscan(jstr(m["minTrxGas"]), &p.MinTrxGas)
		fmt.Sscan(jstr(m["maxTrxGas"]), &p.MaxTrxGas)
		fmt.Sscan(jstr(m["maxBlockGas"]), &p.MaxBlockGas)
		fmt.Sscan(jstr(m["minVotingPeriodBlocks"]), &p.MinVotingPeriodBlocks)
		fmt.Sscan(jstr(m["maxVotingPeriodBlocks"]), &p.MaxVotingPeriodBlocks)
		fmt.Sscan(jstr(m["minSelfStakeRatio"]), &p.MinSelfStakeRatio)
		fmt.Sscan(jstr(m["maxUpdatableStakeRatio"]), &p.MaxUpdatableStakeRatio)
		fmt.Sscan(jstr(m["maxIndividualStakeRatio"]), &p.MaxIndividualStakeRatio)
		fmt.Sscan(jstr(m["slashRatio"]), &p.SlashRatio)
		fmt.Sscan(jstr(m["signedBlocksWindow"]), &p.SignedBlocksWindow)
		fmt.Sscan(jstr(m["minSignedBlocks"]), &p.MinSignedBlocks)
		return fmt.Sprintf("%+v", p), nil
	case "proposal":
		if len(key) == 0 {
			var ids []string
			if ps, ok := v.([]interface{}); ok {
				for _, x := range ps {
					xm, _ := x.(map[string]interface{})
					pm, _ := xm["proposal"].(map[string]interface{})
					ids = append(ids, normStatus(jstr(xm["status"]))+":"+propFromJSON(pm).TxHash)
				}
			}
			return fmt.Sprint(ids), nil
		}
		m, _ := v.(map[string]interface{})
		pm, _ := m["proposal"].(map[string]interface{})
		return normStatus(jstr(m["status"])) + " " + propStr(propFromJSON(pm)), nil
	}
	return "", fmt.Errorf("unknown path")
}

var c19Paths = map[string]bool{"account": true, "delegatee": true, "stakes": true, "stakes/total_power": true, "reward": true, "proposal": true, "gov_params": true}

func checkC19(c *Ctx) {
	c.rule = "a second replica replays each generated history and is queried (account, delegatee, stakes, stakes/total_power, reward, proposal, gov_params; known and unknown keys; heights 1..latest, 0, latest+1) right after each commit, in the middle of the next block, after later blocks and after a restart; each answer is parsed and compared with the projection of the state dump taken at that height on the primary replica, ResponseQuery.Height must be the requested (or latest) height, answers for a (path,key,height) never change (byte memo), and the queried replica must commit the same app hashes as the quiet primary. Concurrent mode (-race binary): latest-height queries from 4-8 goroutines during block execution; every answer must carry a height inside [last commit completed before the call, last commit started before the return] and the value of that height; the commit/query history of the height register is additionally checked with porcupine. distinct = distinct (path, moment kind, outcome) triples"
	c.assumptions = append(c.assumptions, "application calls never overlap in the node: consensus, mempool and query connections share the one mutex of rigoLocalClient; concurrency is exercised as contention for that mutex, races that need two overlapping application calls are outside what the node can do (DESIGN 12.4)")
	n := c.N(20, 250)
	c.Parallel(n, 0, func(i int) {
		rng := c.Rng("c19", i)
		o := twinOpts(c, "C19", i)
		o.Blocks = c.N(24, 36)
		o.Gen.W["proposal"], o.Gen.W["vote"], o.Gen.W["withdraw"] = 12, 20, 12
		hr := runHistory(c, i, c.Rng("hist-C19", i), o)
		hr.Report("C19")
		if len(hr.Results) == 0 {
			return
		}
		qs := queryCatalogue(hr)
		var cat []queryTpl
		for _, q := range qs {
			if c19Paths[q.Path] {
				cat = append(cat, q)
			}
		}
		c.c19Deterministic(i, hr, o, cat, rng)
		if i%3 == 0 || !c.Quick() {
			c.c19Concurrent(i, hr, o, cat)
		}
		if i < 2 {
			c.Sample(map[string]interface{}{"history": o.Name, "blocks": len(hr.Results), "catalogue": len(cat)})
		}
	})
	c.Require("answers-checked", "mid-block-queries", "memo-rechecks", "restart-rechecks", "concurrent-answers-checked")
}

// memoForm is the form in which answers are compared over time: the parsed content
// (JSON object member order is not content), or the error code.
func memoForm(path string, key []byte, code uint32, value []byte) string {
	if code != 0 {
		return fmt.Sprintf("error-code-%d", code)
	}
	if p, err := observedAnswer(path, key, value); err == nil {
		return p
	}
	return fmt.Sprintf("raw:%x", value)
}

type memoKey struct {
	path, key string
	h         int64
}

func (c *Ctx) c19Deterministic(i int, hr *HistRun, o *HistOpts, cat []queryTpl, rng *rand.Rand) {
	dir := c.DirI(i, fmt.Sprintf("c19-%d-q", i))
	r, _, err := openReplica(c, dir, hr.G.G, SpawnOpt{}, true)
	if err != nil {
		c.Err(i, "open", err)
		return
	}
	defer func() { r.Close() }()
	memo := map[memoKey]string{}
	nb := int64(len(hr.Results))
	ask := func(moment string, q queryTpl, reqH, latest int64) bool {
		res, err := r.Query(q.Path, q.Data, reqH)
		if err != nil {
			c.Err(i, "query", err)
			return false
		}
		effH := reqH
		if reqH == 0 {
			effH = latest
		}
		tag := fmt.Sprintf("%s %s key=%s height=%d (latest %d, %s)", o.Name, q.Path, hx(q.Data), reqH, latest, moment)
		viol := func(sig, msg string) bool {
			c.Violation(i, "query:"+sig, tag+": "+msg, map[string]interface{}{"history": hr.replayDoc(), "path": q.Path, "key": hx(q.Data), "height": reqH, "moment": moment})
			return false
		}
		if effH > latest || effH < 1 {
			if res.Code == 0 {
				return viol("future-height-answered", fmt.Sprintf("code 0 with value %q for a height that is not committed", res.Value))
			}
			c.Distinct(q.Path + "/" + moment + "/future-error")
			return true
		}
		if res.Height != effH {
			return viol("wrong-response-height", fmt.Sprintf("ResponseQuery.Height=%d", res.Height))
		}
		st := hr.M.Hist[effH]
		want, ok := expectedAnswer(st, q.Path, q.Data)
		if !ok {
			if res.Code == 0 && len(res.Value) > 0 && string(res.Value) != "null" && !zeroAnswer(q.Path, q.Data, res.Value) {
				return viol("answer-for-absent-key", fmt.Sprintf("code 0 value %q although the key does not exist at that height", res.Value))
			}
			c.Distinct(q.Path + "/" + moment + "/absent")
		} else {
			if res.Code != 0 {
				return viol("error-for-present-key", fmt.Sprintf("code %d log %q, the committed state has %s", res.Code, res.Log, want))
			}
			got, perr := observedAnswer(q.Path, q.Data, res.Value)
			if perr != nil {
				return viol("unparsable-answer", perr.Error())
			}
			if got != want {
				return viol("stale-or-wrong-value", fmt.Sprintf("answer says %s\n   committed state at %d says %s", got, effH, want))
			}
			c.Distinct(q.Path + "/" + moment + "/value")
		}
		c.Count("answers-checked", 1)
		mk := memoKey{q.Path, hx(q.Data), effH}
		cur := memoForm(q.Path, q.Data, res.Code, res.Value)
		if old, seen := memo[mk]; seen {
			c.Count("memo-rechecks", 1)
			if old != cur {
				return viol("answer-changed-over-time", fmt.Sprintf("first answer %s, now %s", old, cur))
			}
		} else {
			memo[mk] = cur
		}
		return true
	}
	round := func(moment string, latest int64, k int) bool {
		for j := 0; j < k; j++ {
			q := cat[rng.Intn(len(cat))]
			var reqH int64
			switch rng.Intn(5) {
			case 0:
				reqH = 0
			case 1:
				reqH = latest
			case 2:
				reqH = latest + 1
			default:
				reqH = 1 + rng.Int63n(latest)
			}
			if !ask(moment, q, reqH, latest) {
				return false
			}
		}
		return true
	}
	// focused rounds: the same (path, key) asked for the latest height in the middle of the next block and, without any
	// request for another height in between, again right after that block's commit (the height is then a past height)
	var focus []queryTpl
	focusRound := func(moment string, at, latest int64, fresh int) bool {
		if fresh > 0 {
			focus = focus[:0]
			for j := 0; j < fresh; j++ {
				focus = append(focus, cat[rng.Intn(len(cat))])
			}
		}
		for _, q := range focus {
			if !ask(moment, q, at, latest) {
				return false
			}
		}
		c.Count("focused-same-height-requeries", len(focus))
		return true
	}
	restartAt := int64(2 + rng.Intn(int(nb)-2))
	var appHash []byte
	for bi, b := range hr.Blocks[:nb] {
		h := b.Height
		if _, err := r.BeginBlock(b.BeginReq(hr.G.G.ChainID, appHash)); err != nil {
			c.Err(i, "begin", err)
			return
		}
		res := &BlockResult{}
		for ti, tx := range b.Txs {
			dr, err := r.DeliverTx(tx)
			if err != nil {
				c.Err(i, "deliver", err)
				return
			}
			res.Txs = append(res.Txs, dr)
			if h > 1 && ti == len(b.Txs)/2 {
				// in the middle of block h: the latest committed state is h-1
				if h%2 == 0 {
					if !focusRound("mid-block-focused", h-1, h-1, 25) {
						return
					}
					c.Count("mid-block-queries", 25)
					continue
				}
				if !round("mid-block", h-1, c.N(20, 40)) {
					return
				}
				c.Count("mid-block-queries", c.N(20, 40))
			}
		}
		var err error
		if res.End, err = r.EndBlock(h); err != nil {
			c.Err(i, "end", err)
			return
		}
		if h > 1 && h%2 == 0 && len(b.Txs) == 0 {
			if !focusRound("mid-block-focused", h-1, h-1, 25) { // an empty block has no middle: ask before EndBlock's answer is committed
				return
			}
		} else if h > 1 && h%2 == 1 {
			if !round("after-endblock", h-1, 8) {
				return
			}
		}
		if res.Commit, err = r.Commit(); err != nil {
			c.Err(i, "commit", err)
			return
		}
		res.Begin = hr.Results[bi].Begin
		appHash = res.Commit.Data
		if a, bb := hr.Results[bi].consensusView(), res.consensusView(); a != bb {
			c.Violation(i, "query:serving-queries-changes-commit", fmt.Sprintf("history %s block %d: the queried replica diverges from the quiet one (%s)", o.Name, h, diffFirst(a, bb)), hr.replayDoc())
			return
		}
		if h > 1 && h%2 == 0 && len(focus) > 0 {
			if !focusRound("after-commit-focused", h-1, h, 0) {
				return
			}
		}
		// like a node with a mempool: the next block's transactions are checked before the queries are asked
		if bi+1 < int(nb) {
			for _, tx := range hr.Blocks[bi+1].Txs {
				if _, err := r.CheckTx(tx); err != nil {
					c.Err(i, "checktx", err)
					return
				}
				c.Count("pending-mempool-checks-before-queries", 1)
			}
		}
		if !round("after-commit", h, c.N(40, 80)) {
			return
		}
		c.Eval(1)
		if h == restartAt {
			if err := r.Stop(); err != nil {
				c.Err(i, "stop", err)
				return
			}
			r, _, err = openReplica(c, dir, hr.G.G, SpawnOpt{}, false)
			if err != nil {
				c.Err(i, "reopen", err)
				return
			}
			_ = r.SetTimes(hr.Times)
			// everything asked before must be answered identically
			n := 0
			for mk, old := range memo {
				if n >= 150 {
					break
				}
				n++
				res, err := r.Query(mk.path, addrBytes(mk.key), mk.h)
				if err != nil {
					c.Err(i, "query after restart", err)
					return
				}
				c.Count("restart-rechecks", 1)
				if cur := memoForm(mk.path, addrBytes(mk.key), res.Code, res.Value); cur != old {
					c.Violation(i, "query:answer-changed-after-restart", fmt.Sprintf("history %s %s key=%s height=%d: before the restart %s, after it %s", o.Name, mk.path, mk.key, mk.h, old, cur), hr.replayDoc())
					return
				}
			}
		}
	}
}

type regOp struct {
	Commit bool
	Height int64
}

func (c *Ctx) c19Concurrent(i int, hr *HistRun, o *HistOpts, cat []queryTpl) {
	out, err := runStress(c, i, "c19", hr, nil, cat, 4+i%5, true)
	if err != nil {
		c.Err(i, "stress", err)
		return
	}
	for _, rp := range out.races {
		c.Violation(i, "data-race:"+raceSignature(rp), rp, hr.replayDoc())
	}
	if d := compareStressConsensus(hr, out.res); d != "" {
		c.Violation(i, "query:concurrent-queries-change-commit", fmt.Sprintf("history %s: %s", o.Name, d), hr.replayDoc())
		return
	}
	var commits []StressEvent
	for _, ev := range out.res.Events {
		if ev.Kind == "commit" {
			commits = append(commits, ev)
		}
	}
	var ops []porcupine.Operation
	for _, cm := range commits {
		ops = append(ops, porcupine.Operation{ClientId: 0, Input: regOp{true, cm.Height}, Call: cm.Call, Output: cm.Height, Return: cm.Return})
	}
	for _, ev := range out.res.Events {
		if ev.Kind != "query" {
			continue
		}
		// bounds from the commit log
		lo, hi := int64(0), int64(0)
		for _, cm := range commits {
			if cm.Return < ev.Call && cm.Height > lo {
				lo = cm.Height
			}
			if cm.Call < ev.Return && cm.Height > hi {
				hi = cm.Height
			}
		}
		tag := fmt.Sprintf("history %s concurrent query %s key=%s", o.Name, ev.Path, hx(ev.Data))
		if lo == 0 {
			continue // nothing committed yet when the query was called: version 0 has no defined answer
		}
		if ev.Height < lo || ev.Height > hi {
			c.Violation(i, "query:concurrent-height-outside-window", fmt.Sprintf("%s: answered for height %d, but commits completed before the call up to %d and started before the return up to %d", tag, ev.Height, lo, hi), hr.replayDoc())
			return
		}
		st := hr.M.Hist[ev.Height]
		if st == nil {
			continue
		}
		want, ok := expectedAnswer(st, ev.Path, ev.Data)
		if ok {
			if ev.Code != 0 {
				c.Violation(i, "query:concurrent-error-for-present-key", fmt.Sprintf("%s at height %d: code %d", tag, ev.Height, ev.Code), hr.replayDoc())
				return
			}
			got, perr := observedAnswer(ev.Path, ev.Data, ev.Value)
			if perr != nil || got != want {
				c.Violation(i, "query:concurrent-stale-or-wrong-value", fmt.Sprintf("%s: claims height %d and says %s (%v)\n   committed state at %d says %s", tag, ev.Height, got, perr, ev.Height, want), hr.replayDoc())
				return
			}
		} else if ev.Code == 0 && len(ev.Value) > 0 && string(ev.Value) != "null" && !zeroAnswer(ev.Path, ev.Data, ev.Value) {
			c.Violation(i, "query:concurrent-answer-for-absent-key", fmt.Sprintf("%s at height %d: value %q", tag, ev.Height, ev.Value), hr.replayDoc())
			return
		}
		c.Count("concurrent-answers-checked", 1)
		c.SetAdd("concurrent-window-widths", fmt.Sprint(hi-lo))
		ops = append(ops, porcupine.Operation{ClientId: 1 + ev.Client, Input: regOp{false, 0}, Call: ev.Call, Output: ev.Height, Return: ev.Return})
	}
	// porcupine: the committed height is a register written by Commit and read by every query
	model := porcupine.Model{
		Init: func() interface{} { return int64(0) },
		Step: func(st, in, out interface{}) (bool, interface{}) {
			op := in.(regOp)
			if op.Commit {
				return true, op.Height
			}
			return out.(int64) == st.(int64), st
		},
		Equal: func(a, b interface{}) bool { return a.(int64) == b.(int64) },
	}
	// queries called before the first commit completed are excluded above; drop commit 0 effects
	res := porcupine.CheckOperationsTimeout(model, ops, 60*time.Second)
	switch res {
	case porcupine.Illegal:
		c.Violation(i, "query:height-register-not-linearizable", fmt.Sprintf("history %s: the commit/query history of the committed-height register (%d operations) is not linearizable", o.Name, len(ops)), hr.replayDoc())
	case porcupine.Unknown:
		c.Inconclusive("porcupine timed out")
	default:
		c.Count("porcupine-histories-ok", 1)
		c.Count("porcupine-operations", len(ops))
	}
}

func init() { checks["C19"] = checkC19 }
