package main

// C03: only the key holder of the sender address can cause a transaction's effects.
// Independent signature oracle (own pre-image construction from the property text) + field
// mutation of validly signed transactions + erasure twin for "no effect".

import (
	"bytes"
	"crypto/sha256"
	"fmt"
	"math/big"
	"math/rand"
	"strings"

	ethcrypto "github.com/ethereum/go-ethereum/crypto"
	"github.com/ethereum/go-ethereum/rlp"
	rctypes "github.com/rigochain/rigo-go/ctrlers/types"
	"golang.org/x/crypto/ripemd160"
	"google.golang.org/protobuf/proto"
)

func minimalBytes(b []byte) []byte {
	return new(big.Int).SetBytes(b).Bytes()
}

// independentPayloadRLP re-states the signed form of each payload from the property text.
func independentPayloadRLP(typ int32, xpayload []byte) ([]byte, bool) {
	switch typ {
	case rctypes.TRX_TRANSFER, rctypes.TRX_STAKING:
		return nil, true
	case rctypes.TRX_UNSTAKING:
		pm := &rctypes.TrxPayloadUnstakingProto{}
		if proto.Unmarshal(xpayload, pm) != nil {
			return nil, false
		}
		bz, _ := rlp.EncodeToBytes(pm.TxHash)
		return bz, true
	case rctypes.TRX_WITHDRAW:
		pm := &rctypes.TrxPayloadWithdrawProto{}
		if proto.Unmarshal(xpayload, pm) != nil {
			return nil, false
		}
		bz, _ := rlp.EncodeToBytes(minimalBytes(pm.XReqAmt))
		return bz, true
	case rctypes.TRX_CONTRACT:
		pm := &rctypes.TrxPayloadContractProto{}
		if proto.Unmarshal(xpayload, pm) != nil {
			return nil, false
		}
		bz, _ := rlp.EncodeToBytes(pm.XData)
		return bz, true
	case rctypes.TRX_SETDOC:
		pm := &rctypes.TrxPayloadSetDocProto{}
		if proto.Unmarshal(xpayload, pm) != nil {
			return nil, false
		}
		bz, _ := rlp.EncodeToBytes([]interface{}{pm.Name, pm.Url})
		return bz, true
	case rctypes.TRX_PROPOSAL:
		pm := &rctypes.TrxPayloadProposalProto{}
		if proto.Unmarshal(xpayload, pm) != nil {
			return nil, false
		}
		opts := pm.Options
		if opts == nil {
			opts = [][]byte{}
		}
		bz, _ := rlp.EncodeToBytes([]interface{}{pm.Message, uint64(pm.StartVotingHeight), uint64(pm.VotingBlocks), uint64(pm.ApplyingHeight), uint32(pm.OptType), opts})
		return bz, true
	case rctypes.TRX_VOTING:
		pm := &rctypes.TrxPayloadVotingProto{}
		if proto.Unmarshal(xpayload, pm) != nil {
			return nil, false
		}
		bz, _ := rlp.EncodeToBytes([]interface{}{pm.TxHash, uint32(pm.Choice)})
		return bz, true
	}
	return nil, false
}

// independentVerify decides, without any of the repository's signing code, whether raw carries
// a signature of the claimed sender over every executed field for this chain id.
func independentVerify(raw []byte, chainID string) bool {
	pm := &rctypes.TrxProto{}
	if proto.Unmarshal(raw, pm) != nil {
		return false
	}
	pl, ok := independentPayloadRLP(pm.Type, pm.XPayload)
	if !ok {
		return false
	}
	if pl == nil {
		pl = []byte{}
	}
	from, to := pm.From, pm.To
	if from == nil {
		from = []byte{}
	}
	if to == nil {
		to = []byte{}
	}
	body, err := rlp.EncodeToBytes([]interface{}{
		uint64(pm.Version), uint64(pm.Time), pm.Nonce, from, to, minimalBytes(pm.XAmount), pm.Gas, minimalBytes(pm.XGasPrice),
		uint64(int64(pm.Type)), pl, []byte{},
	})
	if err != nil {
		return false
	}
	pre := append([]byte(fmt.Sprintf("\x19RIGO(%s) Signed Message:\n%d", chainID, len(body))), body...)
	h := sha256.Sum256(pre)
	if len(pm.Sig) != 65 {
		return false
	}
	pub, err := ethcrypto.SigToPub(h[:], pm.Sig)
	if err != nil {
		return false
	}
	cp := ethcrypto.CompressPubkey(pub)
	s := sha256.Sum256(cp)
	rh := ripemd160.New()
	rh.Write(s[:])
	return bytes.Equal(rh.Sum(nil), pm.From)
}

type mutant struct {
	label    string
	raw      []byte
	semantic bool // at least one executed field differs from the signed original
	of       int  // index of the original
}

func reenc(pm *rctypes.TrxProto) []byte {
	bz, _ := proto.Marshal(pm)
	return bz
}

func clonePM(raw []byte) *rctypes.TrxProto {
	pm := &rctypes.TrxProto{}
	_ = proto.Unmarshal(raw, pm)
	return pm
}

func incBytes(b []byte, d int64) []byte {
	v := new(big.Int).SetBytes(b)
	v.Add(v, big.NewInt(d))
	if v.Sign() < 0 {
		v.SetInt64(1)
	}
	return v.Bytes()
}

var secpN, _ = new(big.Int).SetString("fffffffffffffffffffffffffffffffebaaedce6af48a03bbfd25e8cd0364141", 16)

// mutantsOf derives mutants of one validly signed transaction.
func mutantsOf(rng *rand.Rand, idx int, orig *TxInfo, g *Gen, st *MState, chainID string, key *Key, allowBenign bool) []mutant {
	var out []mutant
	add := func(label string, semantic bool, f func(pm *rctypes.TrxProto) bool) {
		pm := clonePM(orig.Raw)
		if !f(pm) {
			return
		}
		out = append(out, mutant{label: label, raw: reenc(pm), semantic: semantic, of: idx})
	}
	otherFunded := func() []byte {
		for tries := 0; tries < 20; tries++ {
			k := g.pick(g.All)
			if a := st.Accounts[k.A()]; a != nil && a.Bal.Sign() > 0 && k.A() != hx(orig.Tx.From) {
				return k.Addr
			}
		}
		return nil
	}
	add("version+1", true, func(pm *rctypes.TrxProto) bool { pm.Version++; return true })
	add("time+1", true, func(pm *rctypes.TrxProto) bool { pm.Time++; return true })
	add("time-1", true, func(pm *rctypes.TrxProto) bool { pm.Time--; return true })
	add("nonce+1", true, func(pm *rctypes.TrxProto) bool { pm.Nonce++; return true })
	add("nonce-1", true, func(pm *rctypes.TrxProto) bool {
		if pm.Nonce == 0 {
			return false
		}
		pm.Nonce--
		return true
	})
	add("from-swapped", true, func(pm *rctypes.TrxProto) bool {
		o := otherFunded()
		if o == nil {
			return false
		}
		pm.From = o
		if a := st.Accounts[hx(o)]; a != nil {
			pm.Nonce = a.Nonce
		}
		return true
	})
	add("from-bitflip", true, func(pm *rctypes.TrxProto) bool { pm.From[rng.Intn(20)] ^= 1 << uint(rng.Intn(8)); return true })
	add("to-bitflip", true, func(pm *rctypes.TrxProto) bool {
		if len(pm.To) != 20 {
			return false
		}
		pm.To[rng.Intn(20)] ^= 1 << uint(rng.Intn(8))
		return true
	})
	add("to-swapped", true, func(pm *rctypes.TrxProto) bool {
		o := otherFunded()
		if o == nil || bytes.Equal(o, pm.To) {
			return false
		}
		pm.To = o
		return true
	})
	add("amount+1", true, func(pm *rctypes.TrxProto) bool { pm.XAmount = incBytes(pm.XAmount, 1); return true })
	add("amount-1", true, func(pm *rctypes.TrxProto) bool {
		if new(big.Int).SetBytes(pm.XAmount).Sign() == 0 {
			return false
		}
		pm.XAmount = incBytes(pm.XAmount, -1)
		return true
	})
	add("amount*2", true, func(pm *rctypes.TrxProto) bool {
		v := new(big.Int).SetBytes(pm.XAmount)
		if v.Sign() == 0 {
			return false
		}
		pm.XAmount = v.Lsh(v, 1).Bytes()
		return true
	})
	for _, sh := range []uint{32, 64, 128, 200} {
		sh := sh
		add(fmt.Sprintf("amount+2^%d", sh), true, func(pm *rctypes.TrxProto) bool {
			v := new(big.Int).SetBytes(pm.XAmount)
			v.Add(v, new(big.Int).Lsh(big.NewInt(1), sh))
			pm.XAmount = v.Bytes()
			return true
		})
		add(fmt.Sprintf("gasprice+2^%d", sh), true, func(pm *rctypes.TrxProto) bool {
			v := new(big.Int).SetBytes(pm.XGasPrice)
			v.Add(v, new(big.Int).Lsh(big.NewInt(1), sh))
			pm.XGasPrice = v.Bytes()
			return true
		})
	}
	add("nonce+2^32", true, func(pm *rctypes.TrxProto) bool { pm.Nonce += 1 << 32; return true })
	add("time+2^32", true, func(pm *rctypes.TrxProto) bool { pm.Time += 1 << 32; return true })
	add("time-negated", true, func(pm *rctypes.TrxProto) bool { pm.Time = -pm.Time; return pm.Time != 0 })
	add("version+2^16", true, func(pm *rctypes.TrxProto) bool { pm.Version += 1 << 16; return true })
	add("gas+1", true, func(pm *rctypes.TrxProto) bool { pm.Gas++; return true })
	add("gas-1", true, func(pm *rctypes.TrxProto) bool { pm.Gas--; return true })
	add("gas+2^32", true, func(pm *rctypes.TrxProto) bool { pm.Gas += 1 << 32; return true })
	add("gasprice+1", true, func(pm *rctypes.TrxProto) bool { pm.XGasPrice = incBytes(pm.XGasPrice, 1); return true })
	add("type-changed", true, func(pm *rctypes.TrxProto) bool {
		nt := int32(1 + rng.Intn(8))
		if nt == pm.Type {
			return false
		}
		pm.Type = nt
		return true
	})
	// payload edits
	switch orig.Tx.Type {
	case rctypes.TRX_UNSTAKING:
		add("payload:other-own-stake-same-validator", true, func(pm *rctypes.TrxProto) bool {
			// only the stake reference changes: another stake of the same owner bonded to the same validator
			if d := st.Delegatees[hx(pm.To)]; d != nil {
				for _, s := range d.Stakes {
					pl := &rctypes.TrxPayloadUnstaking{TxHash: addrBytes(s.TxHash)}
					bz, _ := pl.Encode()
					if s.Owner == hx(pm.From) && !bytes.Equal(bz, pm.XPayload) {
						pm.XPayload = bz
						return true
					}
				}
			}
			return false
		})
		add("payload:other-stake", true, func(pm *rctypes.TrxProto) bool {
			for _, dk := range sortedKeys(st.Delegatees) {
				for _, s := range st.Delegatees[dk].Stakes {
					pl := &rctypes.TrxPayloadUnstaking{TxHash: addrBytes(s.TxHash)}
					bz, _ := pl.Encode()
					if !bytes.Equal(bz, pm.XPayload) {
						pm.XPayload = bz
						pm.To = addrBytes(dk)
						return true
					}
				}
			}
			return false
		})
	case rctypes.TRX_WITHDRAW:
		add("payload:reqamt+1", true, func(pm *rctypes.TrxProto) bool {
			p := &rctypes.TrxPayloadWithdrawProto{}
			_ = proto.Unmarshal(pm.XPayload, p)
			p.XReqAmt = incBytes(p.XReqAmt, 1)
			pm.XPayload, _ = proto.Marshal(p)
			return true
		})
		for _, sh := range []uint{64, 65, 128, 255} {
			sh := sh
			add(fmt.Sprintf("payload:reqamt+2^%d", sh), true, func(pm *rctypes.TrxProto) bool {
				p := &rctypes.TrxPayloadWithdrawProto{}
				_ = proto.Unmarshal(pm.XPayload, p)
				v := new(big.Int).SetBytes(p.XReqAmt)
				v.Add(v, new(big.Int).Lsh(big.NewInt(1), sh))
				if v.Cmp(two256) >= 0 {
					return false
				}
				p.XReqAmt = v.Bytes()
				pm.XPayload, _ = proto.Marshal(p)
				return true
			})
		}
		add("payload:reqamt-halved", true, func(pm *rctypes.TrxProto) bool {
			p := &rctypes.TrxPayloadWithdrawProto{}
			_ = proto.Unmarshal(pm.XPayload, p)
			v := new(big.Int).SetBytes(p.XReqAmt)
			if v.Sign() == 0 {
				return false
			}
			p.XReqAmt = v.Rsh(v, 1).Bytes()
			pm.XPayload, _ = proto.Marshal(p)
			return true
		})
	case rctypes.TRX_CONTRACT:
		add("payload:data-bitflip", true, func(pm *rctypes.TrxProto) bool {
			p := &rctypes.TrxPayloadContractProto{}
			_ = proto.Unmarshal(pm.XPayload, p)
			if len(p.XData) == 0 {
				p.XData = []byte{0}
			} else {
				p.XData[rng.Intn(len(p.XData))] ^= 1
			}
			pm.XPayload, _ = proto.Marshal(p)
			return true
		})
	case rctypes.TRX_SETDOC:
		add("payload:name-changed", true, func(pm *rctypes.TrxProto) bool {
			p := &rctypes.TrxPayloadSetDocProto{}
			_ = proto.Unmarshal(pm.XPayload, p)
			p.Name += "x"
			pm.XPayload, _ = proto.Marshal(p)
			return true
		})
		add("payload:url-changed", true, func(pm *rctypes.TrxProto) bool {
			p := &rctypes.TrxPayloadSetDocProto{}
			_ = proto.Unmarshal(pm.XPayload, p)
			p.Url = "https://evil/"
			pm.XPayload, _ = proto.Marshal(p)
			return true
		})
	case rctypes.TRX_PROPOSAL:
		for _, ed := range []struct {
			name string
			f    func(p *rctypes.TrxPayloadProposalProto)
		}{
			{"message", func(p *rctypes.TrxPayloadProposalProto) { p.Message += "!" }},
			{"start+1", func(p *rctypes.TrxPayloadProposalProto) { p.StartVotingHeight++; p.ApplyingHeight++ }},
			{"period-1", func(p *rctypes.TrxPayloadProposalProto) { p.VotingBlocks-- }},
			{"applying+1", func(p *rctypes.TrxPayloadProposalProto) { p.ApplyingHeight++ }},
			{"opttype", func(p *rctypes.TrxPayloadProposalProto) { p.OptType ^= 0x0300 }},
			{"opttype-sign", func(p *rctypes.TrxPayloadProposalProto) { p.OptType |= -1 << 31 }},
			{"start+2^32", func(p *rctypes.TrxPayloadProposalProto) { p.StartVotingHeight += 1 << 32; p.ApplyingHeight += 1 << 32 }},
			{"applying+2^32", func(p *rctypes.TrxPayloadProposalProto) { p.ApplyingHeight += 1 << 32 }},
			{"option-edited", func(p *rctypes.TrxPayloadProposalProto) {
				if len(p.Options) > 0 {
					p.Options[0] = []byte(`{"slashRatio":"100"}`)
				}
			}},
			{"option-added", func(p *rctypes.TrxPayloadProposalProto) {
				p.Options = append(p.Options, []byte(`{"rewardPerPower":"1"}`))
			}},
		} {
			ed := ed
			add("payload:"+ed.name, true, func(pm *rctypes.TrxProto) bool {
				p := &rctypes.TrxPayloadProposalProto{}
				_ = proto.Unmarshal(pm.XPayload, p)
				ed.f(p)
				pm.XPayload, _ = proto.Marshal(p)
				return true
			})
		}
	case rctypes.TRX_VOTING:
		add("payload:choice+1", true, func(pm *rctypes.TrxProto) bool {
			p := &rctypes.TrxPayloadVotingProto{}
			_ = proto.Unmarshal(pm.XPayload, p)
			p.Choice++
			pm.XPayload, _ = proto.Marshal(p)
			return true
		})
		add("payload:other-proposal", true, func(pm *rctypes.TrxProto) bool {
			p := &rctypes.TrxPayloadVotingProto{}
			_ = proto.Unmarshal(pm.XPayload, p)
			for _, pk := range sortedKeys(st.Proposals) {
				if pk != hx(p.TxHash) {
					p.TxHash = addrBytes(pk)
					pm.XPayload, _ = proto.Marshal(p)
					return true
				}
			}
			return false
		})
	}
	// signature manipulations
	add("sig-bitflip", true, func(pm *rctypes.TrxProto) bool { pm.Sig[rng.Intn(64)] ^= 1 << uint(rng.Intn(8)); return true })
	add("sig-truncated", true, func(pm *rctypes.TrxProto) bool { pm.Sig = pm.Sig[:64]; return true })
	add("sig-extended", true, func(pm *rctypes.TrxProto) bool { pm.Sig = append(pm.Sig, 0); return true })
	add("sig-empty", true, func(pm *rctypes.TrxProto) bool { pm.Sig = nil; return true })
	add("sig-v-flipped", true, func(pm *rctypes.TrxProto) bool { pm.Sig[64] ^= 1; return true })
	add("sig-of-other-tx", true, func(pm *rctypes.TrxProto) bool {
		// a valid signature of the same key over a different transaction
		t2 := *orig.Tx
		t2.Time += 777
		raw2 := signTx(&t2, key, chainID)
		pm.Sig = clonePM(raw2).Sig
		return true
	})
	// chain id variants: signed by the right key for another chain
	for _, cid := range []string{"", "x" + chainID, chainID + "x", strings.ToUpper(chainID), "mainnet"} {
		if cid == chainID {
			continue
		}
		t2 := *orig.Tx
		raw2 := signTx(&t2, key, cid)
		out = append(out, mutant{label: "chain-id:" + cid, raw: raw2, semantic: true, of: idx})
	}
	// foreign signer: right fields, signed by another key
	{
		t2 := *orig.Tx
		ok := g.pick(g.All)
		if ok.A() != key.A() {
			out = append(out, mutant{label: "foreign-signer", raw: signTx(&t2, ok, chainID), semantic: true, of: idx})
		}
	}
	// benign re-encodings (every executed field equal): recorded, allowed to succeed
	if allowBenign && (orig.Tx.Type == rctypes.TRX_TRANSFER || orig.Tx.Type == rctypes.TRX_SETDOC || orig.Tx.Type == rctypes.TRX_WITHDRAW) {
		add("benign:amount-zero-padded", false, func(pm *rctypes.TrxProto) bool { pm.XAmount = append([]byte{0, 0}, pm.XAmount...); return true })
		add("benign:malleable-signature", false, func(pm *rctypes.TrxProto) bool {
			s := new(big.Int).SetBytes(pm.Sig[32:64])
			s.Sub(secpN, s)
			sb := s.Bytes()
			copy(pm.Sig[32:64], make([]byte, 32))
			copy(pm.Sig[64-len(sb):64], sb)
			pm.Sig[64] ^= 1
			return true
		})
	}
	// restore original.Sig on the shared Trx object (signTx mutates tx.Sig)
	orig.Tx.Sig = clonePM(orig.Raw).Sig
	return out
}

func checkC03(c *Ctx) {
	c.rule = "valid transactions of all eight types are signed with the repository's own helper; from each, mutants are derived (every scalar field +-1, wrap candidates, sender/receiver swapped or bit-flipped, type changed, per-type payload field edits, signature bit flips/truncation/extension/recovery-id flip/signature of another transaction, signatures for other chain ids, foreign signers, plus benign re-encodings); blocks = shuffled mutants followed by the untouched originals. Oracle: an independent verifier (own RLP pre-image + chain-id prefix from the property text, sha256, public-key recovery, address derivation) must accept every transaction that returned code 0; the originals must still succeed; an erasure twin that executes only the originals must end in the same semantic state. distinct = distinct (transaction type, mutation) pairs delivered"
	n := c.N(24, 300)
	c.Parallel(n, 0, func(i int) {
		rng := c.Rng("c03", i)
		o := twinOpts(c, "C03", i)
		o.Blocks = 8
		o.Gen.NVal = 2 + rng.Intn(3)
		if int64(o.Gen.NVal) > o.Params.MaxValidatorCnt {
			o.Params.MaxValidatorCnt = int64(o.Gen.NVal)
		}
		o.Gen.Evidence, o.Gen.Absent = 0, 0
		o.Gen.W["proposal"], o.Gen.W["vote"], o.Gen.W["withdraw"] = 14, 20, 14
		o.Params.RewardPerPower = "700000000000000000" // withdrawable rewards soon exceed 2^64: high-bit edits of the amount matter
		hr := runHistory(c, i, c.Rng("hist-C03", i), o)
		hr.Report("C03")
		if len(hr.Results) < o.Blocks {
			return
		}
		c.mutationRun(i, hr, o, rng)
	})
	c.Require("mutants-delivered", "originals-accepted", "accepted-independently-valid")
}

func (c *Ctx) mutationRun(i int, hr *HistRun, o *HistOpts, rng *rand.Rand) {
	g := hr.G
	rA, _, err := openReplica(c, hr.Dir, g.G, SpawnOpt{}, false)
	if err != nil {
		c.Err(i, "reopen", err)
		return
	}
	defer rA.Close()
	// twin: replays the base history, then executes only the originals
	rB, _, err := openReplica(c, c.DirI(i, fmt.Sprintf("c03-%d-twin", i)), g.G, SpawnOpt{}, true)
	if err != nil {
		c.Err(i, "twin", err)
		return
	}
	defer rB.Close()
	var hashB []byte
	for _, b := range hr.Blocks[:len(hr.Results)] {
		res, err := execBlock(rB, g.G.ChainID, b, hashB)
		if err != nil {
			c.Err(i, "twin replay", err)
			return
		}
		hashB = res.Commit.Data
	}
	_ = rA.SetTimes(hr.Times)
	_ = rB.SetTimes(hr.Times)
	hashA := hr.AppHash
	h := int64(len(hr.Results))
	shadow := &Model{G: g.G, Hist: hr.M.Hist, Sim: hr.Sim}
	g.O.InvalidPct = 0
	g.O.W["replay"] = 0
	rounds := c.N(6, 12)
	for rd := 0; rd < rounds; rd++ {
		pre := hr.M.Hist[h]
		h++
		hr.Times[h] = hr.Times[h-1] + 2
		_ = rA.SetTimes(hr.Times)
		_ = rB.SetTimes(hr.Times)
		// the model's notion of current validators needs Hist[h-2]; fine: it is filled below
		blk, txs := g.NextBlock(h, hr.Times[h], pre, hr.Sim, hr.M.lastValidators(h), shadow)
		blk.Evidence = nil
		for k := range blk.Votes {
			blk.Votes[k].Signed = true
		}
		var muts []mutant
		for idx, ti := range txs {
			key := g.Keys[hx(ti.Tx.From)]
			if key == nil {
				continue
			}
			muts = append(muts, mutantsOf(rng, idx, ti, g, pre, g.G.ChainID, key, rd == rounds-1)...)
		}
		rng.Shuffle(len(muts), func(a, b int) { muts[a], muts[b] = muts[b], muts[a] })
		full := *blk
		full.Txs = nil
		for _, m := range muts {
			full.Txs = append(full.Txs, m.raw)
		}
		full.Txs = append(full.Txs, blk.Txs...)
		resA, err := execBlock(rA, g.G.ChainID, &full, hashA)
		if err != nil {
			c.Err(i, "mutant block", err)
			return
		}
		hashA = resA.Commit.Data
		resB, err := execBlock(rB, g.G.ChainID, blk, hashB)
		if err != nil {
			c.Err(i, "originals-only block", err)
			return
		}
		hashB = resB.Commit.Data
		benignTaken := map[int]bool{}
		for k, m := range muts {
			r := resA.Txs[k]
			tname := typeName(txs[m.of].Tx.Type)
			c.Count("mutants-delivered", 1)
			c.Distinct(tname + "/" + strings.SplitN(m.label, ":", 2)[0] + ":" + m.label)
			c.SetAdd("mutations", m.label)
			c.Eval(1)
			valid := independentVerify(m.raw, g.G.ChainID)
			if r.Code == 0 {
				if !valid {
					c.Violation(i, "accepted-without-valid-signature:"+strings.SplitN(m.label, ":", 2)[0], fmt.Sprintf("history %s block %d: mutant %q of a %s transaction returned code 0 although its signature does not verify independently for chain %q\nraw=%x", o.Name, h, m.label, tname, g.G.ChainID, m.raw),
						map[string]interface{}{"history": hr.replayDoc(), "mutant": m.label, "raw": hx(m.raw)})
					return
				}
				c.Count("benign-mutants-accepted", 1)
				benignTaken[m.of] = true
			} else if m.semantic {
				c.Count("semantic-mutants-rejected", 1)
			}
		}
		base := len(muts)
		for k, ti := range txs {
			r := resA.Txs[base+k]
			rb := resB.Txs[k]
			if r.Code == 0 {
				c.Count("originals-accepted", 1)
				if !independentVerify(ti.Raw, g.G.ChainID) {
					c.Violation(i, "accepted-without-valid-signature:original", fmt.Sprintf("history %s block %d: a %s transaction signed with the repository's helper is accepted, but its signature does not cover every executed field according to the independent verifier\nraw=%x", o.Name, h, typeName(ti.Tx.Type), ti.Raw),
						map[string]interface{}{"history": hr.replayDoc(), "raw": hx(ti.Raw)})
					return
				}
				c.Count("accepted-independently-valid", 1)
			}
			if r.Code != rb.Code && !benignTaken[k] {
				// an original behaves differently next to its mutants: a mutant consumed its nonce or funds
				anyBenign := false
				for kk := range benignTaken {
					if hx(txs[kk].Tx.From) == hx(ti.Tx.From) {
						anyBenign = true
					}
				}
				if !anyBenign {
					c.Violation(i, "mutant-had-an-effect:original-result-changed", fmt.Sprintf("history %s block %d: original %s transaction returns code %d after its mutants but code %d without them", o.Name, h, typeName(ti.Tx.Type), r.Code, rb.Code), hr.replayDoc())
					return
				}
			}
		}
		dA, err := rA.DumpAt(h, nil)
		if err != nil {
			c.Err(i, "dump", err)
			return
		}
		dB, err := rB.DumpAt(h, nil)
		if err != nil {
			c.Err(i, "dump", err)
			return
		}
		if len(benignTaken) == 0 {
			if sa, sb := semanticDumpStr(fromDump(dA)), semanticDumpStr(fromDump(dB)); sa != sb {
				c.Violation(i, "mutant-had-an-effect:state", fmt.Sprintf("history %s block %d: the state after mutants+originals differs from the state after the originals only\n%s", o.Name, h, firstDiffLine(sa, sb)), hr.replayDoc())
				return
			}
			c.Count("erasure-comparisons", 1)
		} else {
			// continue both replicas from A's state is impossible; stop this history here
			c.Count("rounds-ended-by-benign-mutant", 1)
			hr.M.Hist[h] = fromDump(dA)
			return
		}
		hr.M.Hist[h] = fromDump(dA)
		_ = hr.Sim.ApplyUpdates(h, resA.End.ValidatorUpdates)
	}
	if i < 2 {
		c.Sample(map[string]interface{}{"history": o.Name, "rounds": rounds})
	}
}

func init() { checks["C03"] = checkC03 }
