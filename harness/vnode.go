package main

// vnode: hosts one real node.RigoApp on a data directory, wrapped in the real
// rigoLocalClient, and executes commands read from stdin.

import (
	"bufio"
	"encoding/gob"
	"encoding/hex"
	"fmt"
	"os"
	"sort"
	"strings"
	"sync"
	"sync/atomic"
	"time"

	"github.com/ethereum/go-ethereum/common"
	cfg "github.com/rigochain/rigo-go/cmd/config"
	"github.com/rigochain/rigo-go/ctrlers/gov/proposal"
	"github.com/rigochain/rigo-go/ctrlers/stake"
	rctypes "github.com/rigochain/rigo-go/ctrlers/types"
	"github.com/rigochain/rigo-go/libs/vhook"
	"github.com/rigochain/rigo-go/node"
	rtypes "github.com/rigochain/rigo-go/types"
	abcicli "github.com/tendermint/tendermint/abci/client"
	abci "github.com/tendermint/tendermint/abci/types"
	tmjson "github.com/tendermint/tendermint/libs/json"
	"github.com/tendermint/tendermint/libs/log"
	tmrpccore "github.com/tendermint/tendermint/rpc/core"
	tmtypes "github.com/tendermint/tendermint/types"
)

// mockBlockStore gives the vm_call query path the block times it needs.
type mockBlockStore struct {
	mtx    sync.Mutex
	times  map[int64]int64 // height -> unix seconds
	height int64
}

func (m *mockBlockStore) Base() int64 { return 1 }
func (m *mockBlockStore) Height() int64 {
	m.mtx.Lock()
	defer m.mtx.Unlock()
	return m.height
}
func (m *mockBlockStore) Size() int64                                                 { return m.Height() }
func (m *mockBlockStore) LoadBaseMeta() *tmtypes.BlockMeta                            { return nil }
func (m *mockBlockStore) LoadBlockMeta(int64) *tmtypes.BlockMeta                      { return nil }
func (m *mockBlockStore) LoadBlockByHash([]byte) *tmtypes.Block                       { return nil }
func (m *mockBlockStore) LoadBlockPart(int64, int) *tmtypes.Part                      { return nil }
func (m *mockBlockStore) LoadBlockCommit(int64) *tmtypes.Commit                       { return nil }
func (m *mockBlockStore) LoadSeenCommit(int64) *tmtypes.Commit                        { return nil }
func (m *mockBlockStore) PruneBlocks(int64) (uint64, error)                           { return 0, nil }
func (m *mockBlockStore) SaveBlock(*tmtypes.Block, *tmtypes.PartSet, *tmtypes.Commit) {}
func (m *mockBlockStore) LoadBlock(h int64) *tmtypes.Block {
	m.mtx.Lock()
	defer m.mtx.Unlock()
	t, ok := m.times[h]
	if !ok {
		t = 1700000000 + h
	}
	return &tmtypes.Block{Header: tmtypes.Header{Height: h, Time: time.Unix(t, 0).UTC()}}
}

type vnode struct {
	app   *node.RigoApp
	cli   abcicli.Client
	store *mockBlockStore
	phase int64 // consensus phase counter (atomic)
}

func hx(b []byte) string { return strings.ToUpper(hex.EncodeToString(b)) }

func vnodeMain(dir string) {
	// stdout carries the protocol; anything the application prints must go to stderr.
	out := os.Stdout
	os.Stdout = os.Stderr

	c := cfg.DefaultConfig()
	c.SetRoot(dir)
	if err := os.MkdirAll(c.DBDir(), 0o755); err != nil {
		fmt.Fprintln(os.Stderr, "vnode: mkdir:", err)
		os.Exit(3)
	}
	var logger log.Logger = log.NewNopLogger()
	if os.Getenv("VNODE_LOG") != "" {
		logger = log.NewTMLogger(os.Stderr)
	}
	app := node.NewRigoApp(c, logger)
	cli := node.NewRigoLocalClient(nil, app)
	cli.SetLogger(logger)
	if err := cli.Start(); err != nil {
		fmt.Fprintln(os.Stderr, "vnode: start:", err)
		os.Exit(3)
	}
	store := &mockBlockStore{times: map[int64]int64{}}
	tmrpccore.SetEnvironment(&tmrpccore.Environment{BlockStore: store})

	vn := &vnode{app: app, cli: cli, store: store}

	dec := gob.NewDecoder(bufio.NewReader(os.Stdin))
	w := bufio.NewWriter(out)
	enc := gob.NewEncoder(w)
	for {
		var cmd Cmd
		if err := dec.Decode(&cmd); err != nil {
			// driver went away
			os.Exit(0)
		}
		rsp := vn.handle(&cmd)
		if err := enc.Encode(rsp); err != nil {
			os.Exit(4)
		}
		w.Flush()
		if cmd.Op == "stop" {
			os.Exit(0)
		}
	}
}

type protoMsg interface {
	Marshal() ([]byte, error)
}

func pb(m protoMsg) []byte {
	bz, err := m.Marshal()
	if err != nil {
		panic(err)
	}
	return bz
}

func (vn *vnode) handle(cmd *Cmd) *Rsp {
	rsp := &Rsp{}
	switch cmd.Op {
	case "ping":
	case "info":
		var req abci.RequestInfo
		must(req.Unmarshal(cmd.Req))
		res, err := vn.cli.InfoSync(req)
		if err != nil {
			rsp.Err = err.Error()
			break
		}
		vn.store.mtx.Lock()
		vn.store.height = res.LastBlockHeight
		vn.store.mtx.Unlock()
		rsp.Res = pb(res)
	case "init":
		var req abci.RequestInitChain
		must(req.Unmarshal(cmd.Req))
		res, err := vn.cli.InitChainSync(req)
		if err != nil {
			rsp.Err = err.Error()
			break
		}
		rsp.Res = pb(res)
	case "begin":
		var req abci.RequestBeginBlock
		must(req.Unmarshal(cmd.Req))
		vn.store.mtx.Lock()
		vn.store.times[req.Header.Height] = req.Header.Time.Unix()
		vn.store.mtx.Unlock()
		res, err := vn.cli.BeginBlockSync(req)
		if err != nil {
			rsp.Err = err.Error()
			break
		}
		atomic.AddInt64(&vn.phase, 1)
		rsp.Res = pb(res)
	case "deliver":
		if os.Getenv("RV_DELIVER") == "async" {
			// the way the consensus engine drives the application: DeliverTxAsync + response callback
			var seen *abci.ResponseDeliverTx
			vn.cli.SetResponseCallback(func(req *abci.Request, res *abci.Response) {
				if r := res.GetDeliverTx(); r != nil {
					seen = r
				}
			})
			rr := vn.cli.DeliverTxAsync(abci.RequestDeliverTx{Tx: cmd.Req})
			if rr == nil || rr.Response == nil || rr.Response.GetDeliverTx() == nil {
				rsp.Err = "DeliverTxAsync returned no response"
				break
			}
			res := rr.Response.GetDeliverTx()
			if seen == nil || string(pb(seen)) != string(pb(res)) {
				rsp.Err = "DeliverTxAsync: the response callback saw another response than the request object carries"
				break
			}
			atomic.AddInt64(&vn.phase, 1)
			rsp.Res = pb(res)
			break
		}
		res, err := vn.cli.DeliverTxSync(abci.RequestDeliverTx{Tx: cmd.Req})
		if err != nil {
			rsp.Err = err.Error()
			break
		}
		atomic.AddInt64(&vn.phase, 1)
		rsp.Res = pb(res)
	case "end":
		var req abci.RequestEndBlock
		must(req.Unmarshal(cmd.Req))
		res, err := vn.cli.EndBlockSync(req)
		if err != nil {
			rsp.Err = err.Error()
			break
		}
		atomic.AddInt64(&vn.phase, 1)
		rsp.Res = pb(res)
	case "commit":
		res, err := vn.cli.CommitSync()
		if err != nil {
			rsp.Err = err.Error()
			break
		}
		vn.store.mtx.Lock()
		vn.store.height++
		vn.store.mtx.Unlock()
		atomic.AddInt64(&vn.phase, 1)
		rsp.Res = pb(res)
	case "check":
		if os.Getenv("RV_DELIVER") == "async" {
			vn.cli.SetResponseCallback(func(req *abci.Request, res *abci.Response) {})
			rr := vn.cli.CheckTxAsync(abci.RequestCheckTx{Tx: cmd.Req, Type: abci.CheckTxType_New})
			if rr == nil || rr.Response == nil || rr.Response.GetCheckTx() == nil {
				rsp.Err = "CheckTxAsync returned no response"
				break
			}
			rsp.Res = pb(rr.Response.GetCheckTx())
			break
		}
		res, err := vn.cli.CheckTxSync(abci.RequestCheckTx{Tx: cmd.Req, Type: abci.CheckTxType_New})
		if err != nil {
			rsp.Err = err.Error()
			break
		}
		rsp.Res = pb(res)
	case "query":
		var req abci.RequestQuery
		must(req.Unmarshal(cmd.Req))
		res, err := vn.cli.QuerySync(req)
		if err != nil {
			rsp.Err = err.Error()
			break
		}
		rsp.Res = pb(res)
	case "settimes":
		vn.store.mtx.Lock()
		for h, t := range cmd.Times {
			vn.store.times[h] = t
		}
		vn.store.mtx.Unlock()
	case "dump":
		d, err := vn.dump(cmd.Height, cmd.Addrs)
		if err != nil {
			rsp.Err = err.Error()
			break
		}
		rsp.Dump = d
	case "active":
		rsp.Active = vn.active()
	case "arm":
		vhook.Arm(cmd.Point, cmd.Nth)
	case "hits":
		rsp.Hits, rsp.Order = vhook.Hits()
	case "resethits":
		vhook.ResetHits()
	case "stress":
		rsp.Stress = vn.stress(cmd.Stress)
	case "stop":
		if err := vn.cli.Stop(); err != nil {
			rsp.Err = err.Error()
		}
	default:
		rsp.Err = "unknown op " + cmd.Op
	}
	return rsp
}

func must(err error) {
	if err != nil {
		panic(err)
	}
}

func convStake(s *stake.Stake) DStake {
	return DStake{Owner: hx(s.From), To: hx(s.To), TxHash: hx(s.TxHash), Start: s.StartHeight, Refund: s.RefundHeight, Power: s.Power}
}

func convParams(p *rctypes.GovParams) *DParams {
	return &DParams{
		Version:                 p.Version(),
		MaxValidatorCnt:         p.MaxValidatorCnt(),
		MinValidatorStake:       p.MinValidatorStake().Dec(),
		MinDelegatorStake:       p.MinDelegatorStake().Dec(),
		RewardPerPower:          p.RewardPerPower().Dec(),
		LazyRewardBlocks:        p.LazyRewardBlocks(),
		LazyApplyingBlocks:      p.LazyApplyingBlocks(),
		GasPrice:                p.GasPrice().Dec(),
		MinTrxGas:               p.MinTrxGas(),
		MaxTrxGas:               p.MaxTrxGas(),
		MaxBlockGas:             p.MaxBlockGas(),
		MinVotingPeriodBlocks:   p.MinVotingPeriodBlocks(),
		MaxVotingPeriodBlocks:   p.MaxVotingPeriodBlocks(),
		MinSelfStakeRatio:       p.MinSelfStakeRatio(),
		MaxUpdatableStakeRatio:  p.MaxUpdatableStakeRatio(),
		MaxIndividualStakeRatio: p.MaxIndividualStakeRatio(),
		SlashRatio:              p.SlashRatio(),
		SignedBlocksWindow:      p.SignedBlocksWindow(),
		MinSignedBlocks:         p.MinSignedBlocks(),
	}
}

func convProposal(p *proposal.GovProposal) DProposal {
	d := DProposal{
		TxHash: hx(p.TxHash), Start: p.StartVotingHeight, End: p.EndVotingHeight, Applying: p.ApplyingHeight,
		TotalPower: p.TotalVotingPower, MajorityPower: p.MajorityPower, OptType: p.OptType,
	}
	for _, v := range p.Voters {
		d.Voters = append(d.Voters, DVoter{Addr: hx(v.Addr), Power: v.Power, Choice: v.Choice})
	}
	sort.Slice(d.Voters, func(i, j int) bool { return d.Voters[i].Addr < d.Voters[j].Addr })
	for _, o := range p.Options {
		d.Options = append(d.Options, DOption{Option: string(o.Option()), Votes: o.Votes()})
	}
	if p.MajorOption != nil {
		d.Major = &DOption{Option: string(p.MajorOption.Option()), Votes: p.MajorOption.Votes()}
	}
	return d
}

func (vn *vnode) dump(height int64, addrs [][]byte) (*Dump, error) {
	ac, sc, gc, ec := vn.app.VerifCtrlers()
	d := &Dump{Height: height}

	accts, xerr := ac.VerifAccountsAt(height)
	if xerr != nil {
		return nil, fmt.Errorf("accounts: %v", xerr)
	}
	for _, a := range accts {
		d.Accounts = append(d.Accounts, DAccount{Addr: hx(a.Address), Name: a.Name, Nonce: a.Nonce, Balance: a.Balance.Dec(), Code: hx(a.Code), DocURL: a.DocURL})
	}
	sort.Slice(d.Accounts, func(i, j int) bool { return d.Accounts[i].Addr < d.Accounts[j].Addr })

	dgs, xerr := sc.VerifDelegateesAt(height)
	if xerr != nil {
		return nil, fmt.Errorf("delegatees: %v", xerr)
	}
	for _, g := range dgs {
		dd := DDelegatee{Addr: hx(g.Addr), PubKey: hx(g.PubKey), Self: g.SelfPower, Total: g.TotalPower, Slashed: g.SlashedPower}
		for _, s := range g.Stakes {
			dd.Stakes = append(dd.Stakes, convStake(s))
		}
		if g.NotSignedHeights != nil {
			dd.NotSigned = append(dd.NotSigned, g.NotSignedHeights.BlockHeights...)
		}
		d.Delegatees = append(d.Delegatees, dd)
	}
	sort.Slice(d.Delegatees, func(i, j int) bool { return d.Delegatees[i].Addr < d.Delegatees[j].Addr })

	frz, xerr := sc.VerifFrozenAt(height)
	if xerr != nil {
		return nil, fmt.Errorf("frozen: %v", xerr)
	}
	for _, s := range frz {
		d.Frozen = append(d.Frozen, convStake(s))
	}
	sort.Slice(d.Frozen, func(i, j int) bool { return d.Frozen[i].TxHash < d.Frozen[j].TxHash })

	rws, xerr := sc.VerifRewardsAt(height)
	if xerr != nil {
		return nil, fmt.Errorf("rewards: %v", xerr)
	}
	for _, r := range rws {
		d.Rewards = append(d.Rewards, DReward{Addr: hx(r.Address()), Issued: r.GetIssued().Dec(), Withdrawn: r.GetWithdrawn().Dec(),
			Slashed: r.GetSlashed().Dec(), Cumulated: r.GetCumulated().Dec(), Height: r.Height()})
	}
	sort.Slice(d.Rewards, func(i, j int) bool { return d.Rewards[i].Addr < d.Rewards[j].Addr })

	gp, xerr := gc.VerifParamsAt(height)
	if xerr != nil {
		return nil, fmt.Errorf("params: %v", xerr)
	}
	d.Params = convParams(gp)

	open, frozen, xerr := gc.VerifProposalsAt(height)
	if xerr != nil {
		return nil, fmt.Errorf("proposals: %v", xerr)
	}
	for _, p := range open {
		d.Proposals = append(d.Proposals, convProposal(p))
	}
	for _, p := range frozen {
		d.FrozenProps = append(d.FrozenProps, convProposal(p))
	}
	sort.Slice(d.Proposals, func(i, j int) bool { return d.Proposals[i].TxHash < d.Proposals[j].TxHash })
	sort.Slice(d.FrozenProps, func(i, j int) bool { return d.FrozenProps[i].TxHash < d.FrozenProps[j].TxHash })

	if len(addrs) > 0 {
		var as []rtypes.Address
		for _, a := range addrs {
			as = append(as, rtypes.Address(a))
		}
		cs, xerr := ec.VerifContractsAt(height, as)
		if xerr != nil {
			return nil, fmt.Errorf("contracts: %v", xerr)
		}
		for _, c := range cs {
			dc := DContract{Addr: hx(c.Addr), Exist: c.Exist, Code: hx(c.Code), Storage: map[string]string{}}
			for k, v := range c.Storage {
				if v != (common.Hash{}) {
					dc.Storage[hx(k[:])] = hx(v[:])
				}
			}
			d.Contracts = append(d.Contracts, dc)
		}
	}
	return d, nil
}

func (vn *vnode) active() *Active {
	_, sc, gc, _ := vn.app.VerifCtrlers()
	a := &Active{LastHeight: vn.app.VerifLastHeight()}
	bz, err := gc.VerifActiveParams()
	if err == nil {
		a.ParamsJSON = string(bz)
		gp := &rctypes.GovParams{}
		if err := tmjson.Unmarshal(bz, gp); err == nil {
			func() {
				defer func() { recover() }()
				a.Params = convParams(gp)
			}()
		}
	}
	for _, v := range sc.VerifLastValidators() {
		a.LastValidators = append(a.LastValidators, DVoter{Addr: hx(v.Addr), Power: v.Power})
	}
	return a
}
