package main

// Concurrent mode (runs inside the vnode process): real client goroutines issue CheckTx and
// Query through the shared local client while the consensus goroutine executes blocks.

import (
	"math/rand"
	"sync"
	"sync/atomic"
	"time"

	abci "github.com/tendermint/tendermint/abci/types"
)

func (vn *vnode) stress(s *StressSpec) *StressResult {
	res := &StressResult{PhaseBase: atomic.LoadInt64(&vn.phase)}
	pause := func() { time.Sleep(40 * time.Microsecond) } // outside the lock: lets clients slip in between consensus calls
	var evMtx sync.Mutex
	t0 := time.Now()
	now := func() int64 { return int64(time.Since(t0)) }
	var stop int32
	var wg sync.WaitGroup
	var committed int64 // last committed height as known to the consensus goroutine
	committed = vn.store.Height()
	for cl := 0; cl < s.Clients; cl++ {
		wg.Add(1)
		go func(cl int) {
			defer wg.Done()
			rng := rand.New(rand.NewSource(s.Seed + int64(cl)*7919))
			for atomic.LoadInt32(&stop) == 0 {
				if len(s.Queries) > 0 && (len(s.CheckTxs) == 0 || rng.Intn(3) != 0) {
					q := s.Queries[rng.Intn(len(s.Queries))]
					ev := StressEvent{Client: cl, Kind: "query", Path: q.Path, Data: q.Data}
					ev.Phase0 = atomic.LoadInt64(&vn.phase)
					ev.Call = now()
					r, err := vn.cli.QuerySync(abci.RequestQuery{Path: q.Path, Data: q.Data, Height: 0})
					ev.Return = now()
					ev.Phase1 = atomic.LoadInt64(&vn.phase)
					if err == nil {
						ev.Height, ev.Code, ev.Value = r.Height, r.Code, r.Value
					}
					evMtx.Lock()
					res.Events = append(res.Events, ev)
					evMtx.Unlock()
				} else if len(s.CheckTxs) > 0 {
					tx := s.CheckTxs[rng.Intn(len(s.CheckTxs))]
					ev := StressEvent{Client: cl, Kind: "checktx"}
					ev.Phase0 = atomic.LoadInt64(&vn.phase)
					ev.Call = now()
					r, err := vn.cli.CheckTxSync(abci.RequestCheckTx{Tx: tx, Type: abci.CheckTxType_New})
					ev.Return = now()
					ev.Phase1 = atomic.LoadInt64(&vn.phase)
					if err == nil {
						ev.Code = r.Code
					}
					evMtx.Lock()
					res.Events = append(res.Events, ev)
					evMtx.Unlock()
				}
				if rng.Intn(4) == 0 {
					time.Sleep(time.Duration(rng.Intn(200)) * time.Microsecond)
				}
			}
		}(cl)
	}
	// consensus goroutine
	for _, b := range s.Blocks {
		var breq abci.RequestBeginBlock
		must(breq.Unmarshal(b.Begin))
		vn.store.mtx.Lock()
		vn.store.times[breq.Header.Height] = breq.Header.Time.Unix()
		vn.store.mtx.Unlock()
		br, err := vn.cli.BeginBlockSync(breq)
		if err != nil {
			res.Err = "begin: " + err.Error()
			break
		}
		atomic.AddInt64(&vn.phase, 1)
		res.Phases = append(res.Phases, "begin")
		res.Consensus = append(res.Consensus, pb(br))
		pause()
		for _, tx := range b.Txs {
			dr, err := vn.cli.DeliverTxSync(abci.RequestDeliverTx{Tx: tx})
			if err != nil {
				break
			}
			atomic.AddInt64(&vn.phase, 1)
			res.Phases = append(res.Phases, "deliver")
			res.Consensus = append(res.Consensus, pb(dr))
			pause()
		}
		var ereq abci.RequestEndBlock
		must(ereq.Unmarshal(b.End))
		er, err := vn.cli.EndBlockSync(ereq)
		if err != nil {
			break
		}
		atomic.AddInt64(&vn.phase, 1)
		res.Phases = append(res.Phases, "end")
		res.Consensus = append(res.Consensus, pb(er))
		pause()
		ev := StressEvent{Client: -1, Kind: "commit", Height: breq.Header.Height}
		ev.Call = now()
		cr, err := vn.cli.CommitSync()
		ev.Return = now()
		if err != nil {
			break
		}
		vn.store.mtx.Lock()
		vn.store.height++
		vn.store.mtx.Unlock()
		atomic.StoreInt64(&committed, breq.Header.Height)
		atomic.AddInt64(&vn.phase, 1)
		res.Phases = append(res.Phases, "commit")
		res.Consensus = append(res.Consensus, pb(cr))
		evMtx.Lock()
		res.Events = append(res.Events, ev)
		evMtx.Unlock()
		time.Sleep(300 * time.Microsecond) // give the clients a chance between blocks
	}
	atomic.StoreInt32(&stop, 1)
	wg.Wait()
	return res
}
