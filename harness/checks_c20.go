package main

// C20: the file-backed validator signer never double-signs, across reloads and process kills.

import (
	"bufio"
	"bytes"
	"encoding/hex"
	"encoding/json"
	"fmt"
	"math/rand"
	"os"
	"os/exec"
	"path/filepath"
	"strconv"
	"strings"
	"time"

	"github.com/gogo/protobuf/proto"
	rcrypto "github.com/rigochain/rigo-go/types/crypto"
	tmsecp "github.com/tendermint/tendermint/crypto/secp256k1"
	"github.com/tendermint/tendermint/libs/protoio"
	tmproto "github.com/tendermint/tendermint/proto/tendermint/types"
	tmtypes "github.com/tendermint/tendermint/types"
)

type release struct {
	H         int64
	R         int32
	S         int8
	SignBytes []byte
	Sig       []byte
	TS        time.Time
	Req       string
}

func hrsLess(a, b *release) bool {
	if a.H != b.H {
		return a.H < b.H
	}
	if a.R != b.R {
		return a.R < b.R
	}
	return a.S < b.S
}

// sameButTimestamp decides independently whether two canonical messages differ in the timestamp only.
func sameButTimestamp(step int8, a, b []byte) bool {
	if step == 1 {
		var x, y tmproto.CanonicalProposal
		if protoio.UnmarshalDelimited(a, &x) != nil || protoio.UnmarshalDelimited(b, &y) != nil {
			return false
		}
		x.Timestamp, y.Timestamp = time.Time{}, time.Time{}
		return proto.Equal(&x, &y)
	}
	var x, y tmproto.CanonicalVote
	if protoio.UnmarshalDelimited(a, &x) != nil || protoio.UnmarshalDelimited(b, &y) != nil {
		return false
	}
	x.Timestamp, y.Timestamp = time.Time{}, time.Time{}
	return proto.Equal(&x, &y)
}

type stateFile struct {
	Height    string `json:"height"`
	Round     int32  `json:"round"`
	Step      int8   `json:"step"`
	Signature []byte `json:"signature"`
	SignBytes string `json:"signbytes"`
}

func readStateFile(path string) (*release, error) {
	bz, err := os.ReadFile(path)
	if err != nil {
		return nil, err
	}
	var sf stateFile
	if err := json.Unmarshal(bz, &sf); err != nil {
		return nil, fmt.Errorf("state file does not parse: %v: %q", err, bz)
	}
	h, _ := strconv.ParseInt(sf.Height, 10, 64)
	sb, _ := hex.DecodeString(sf.SignBytes)
	return &release{H: h, R: sf.Round, S: sf.Step, SignBytes: sb, Sig: sf.Signature}, nil
}

func blockIDFor(n int) tmproto.BlockID {
	if n == 0 {
		return tmproto.BlockID{} // nil vote
	}
	return tmproto.BlockID{Hash: sha256sum([]byte(fmt.Sprint("blk", n))), PartSetHeader: tmproto.PartSetHeader{Total: 1, Hash: sha256sum([]byte(fmt.Sprint("ps", n)))}}
}

func checkC20(c *Ctx) {
	c.rule = "in-process mode: PRNG request sequences over a small (height, round, step) cube mixing proposals, prevotes and precommits with increasing, repeated, regressing, conflicting-block-id and timestamp-only variants, the signer being reloaded from its key and state files with probability 1/2 between requests; offline checker over the log of released signatures + independent reads of the state file at every release. Crash mode: a child process signs an increasing stream and reports each release; the parent SIGKILLs it after a PRNG-chosen number of observed releases, then checks the state file against the release log and re-requests the last message (exact, timestamp-only variant, conflicting). Node-path crash mode: the same with a child that obtains its signer from node.NewRigoNode on an initialised home directory (the object the consensus engine would sign with), killed and started again on the same directory; the second incarnation is probed with the exact replay, a timestamp-only variant, a conflicting vote and a lower height. distinct = distinct request sequences with at least one accepted advance, one replay and one refused conflict"
	c.assumptions = []string{"process death only (no power loss): rename atomicity on a live kernel"}
	n := c.N(400, 60000)
	// the request sequences run the signer inside the checking process: shielded (a child process), so that signer
	// code that kills its process (e.g. a failing write on a goroutine of its own) is reported, not fatal to the check
	if c.Shielded("sequences", func() { c.Parallel(n, 0, func(i int) { c.signerSequence(i, c.Rng("c20", i)) }) }) {
		return
	}
	kills := c.N(80, 2000)
	c.Parallel(kills, 8, func(i int) { c.signerKill(100000+i, c.Rng("c20kill", i)) })
	// the same through the process-start path of the node: the signer is the one NewRigoNode hands to the consensus engine
	nodeKills := c.N(8, 120)
	c.Parallel(nodeKills, 4, func(i int) { c.signerNodeKill(200000+i, c.Rng("c20nodekill", i)) })
	c.Require("accepted-advances", "same-message-replays", "timestamp-only-replays", "refused-conflicts", "refused-regressions", "reloads", "kills", "node-path-kills")
}

func (c *Ctx) signerSequence(i int, rng *rand.Rand) {
	dir := c.DirI(i, fmt.Sprintf("c20-%d", i))
	defer os.RemoveAll(dir)
	keyFile, stFile := filepath.Join(dir, "key.json"), filepath.Join(dir, "state.json")
	chainID := "c20-chain"
	prv := tmsecp.GenPrivKeySecp256k1(sha256sum([]byte(fmt.Sprint("c20", c.Seed, i))))
	pv := rcrypto.NewSFilePV(prv, keyFile, stFile)
	pv.SaveWith(nil)
	pub := prv.PubKey()
	var log []*release
	var last *release
	var trace []string
	adv, rep, tsrep, conf, regr := 0, 0, 0, 0, 0
	bad := func(sig, msg string) {
		t := trace
		if len(t) > 30 {
			t = t[len(t)-30:]
		}
		c.Violation(i, "signer:"+sig, fmt.Sprintf("sequence %d: %s\nlast requests: %s", i, msg, strings.Join(t, " | ")), map[string]interface{}{"requests": trace})
	}
	defer func() {
		if r := recover(); r != nil {
			bad("panic", fmt.Sprint("panic: ", r))
		}
	}()
	nreq := 60
	curH, curR := int64(1), int32(0)
	baseT := time.Unix(1700000000, 0).UTC()
	for q := 0; q < nreq; q++ {
		c.Eval(1)
		if rng.Intn(2) == 0 {
			pv = rcrypto.LoadSFilePV(keyFile, stFile, nil)
			c.Count("reloads", 1)
			trace = append(trace, "reload")
		}
		// choose the request relative to the last release
		h, r := curH, curR
		step := int8(1 + rng.Intn(3))
		bid := 1 + rng.Intn(2)
		ts := baseT.Add(time.Duration(q) * time.Second)
		if rng.Intn(4) != 0 {
			ts = ts.Add(time.Duration(rng.Intn(1_000_000_000))) // real clocks have sub-millisecond parts
		}
		mode := rng.Intn(10)
		switch {
		case last != nil && mode < 2: // exact replay
			h, r, step = last.H, last.R, last.S
		case last != nil && mode < 4: // same HRS, different timestamp
			h, r, step = last.H, last.R, last.S
		case last != nil && mode < 6: // same HRS, conflicting block id
			h, r, step = last.H, last.R, last.S
			bid = 7 + rng.Intn(3)
		case last != nil && mode < 7: // regression
			switch rng.Intn(3) {
			case 0:
				h = last.H - 1 - int64(rng.Intn(2))
			case 1:
				h, r = last.H, last.R-1
				if last.R > 1000 && rng.Intn(2) == 0 {
					r = int32(rng.Intn(4))
				}
			default:
				h, r, step = last.H, last.R, last.S-1
			}
			if h < 1 || r < 0 || step < 1 {
				h, r, step = last.H, last.R, last.S
				bid = 9
			}
		default: // advance
			switch rng.Intn(3) {
			case 0:
				curH++
				curR = 0
			case 1:
				curR++
				if rng.Intn(12) == 0 {
					// very high rounds: comparisons must not wrap
					hr := []int32{1 << 29, 1<<30 + 5, 1<<31 - 2}[rng.Intn(3)]
					if hr > curR {
						curR = hr
					}
				}
			}
			h, r = curH, curR
		}
		var signBytes, sig, retBytes []byte
		var err error
		var outTS time.Time
		var req string
		// for replays we need the original block id: remember it per HRS
		key := fmt.Sprintf("%d/%d/%d", h, r, step)
		if last != nil && mode < 4 && key == fmt.Sprintf("%d/%d/%d", last.H, last.R, last.S) {
			fmt.Sscan(strings.TrimPrefix(last.Req[strings.Index(last.Req, "bid="):], "bid="), &bid)
			if mode < 2 {
				ts = last.TS
			}
		}
		// write-fault injection: the directory of the state file disappears for the duration of one request;
		// a signature must not be released unless its record is durable
		fault := rng.Intn(12) == 0
		away := dir + ".away"
		panicked := false
		if fault {
			_ = os.Rename(dir, away)
		}
		call := func(f func() error) error {
			defer func() {
				if r := recover(); r != nil {
					panicked = true
				}
			}()
			return f()
		}
		if step == 1 {
			p := &tmproto.Proposal{Type: tmproto.ProposalType, Height: h, Round: r, PolRound: -1, BlockID: blockIDFor(bid), Timestamp: ts}
			req = fmt.Sprintf("proposal h=%d r=%d ts=%d bid=%d", h, r, ts.Unix(), bid)
			signBytes = tmtypes.ProposalSignBytes(chainID, p)
			err = call(func() error { return pv.SignProposal(chainID, p) })
			sig, outTS = p.Signature, p.Timestamp
			retBytes = tmtypes.ProposalSignBytes(chainID, p)
		} else {
			typ := tmproto.PrevoteType
			if step == 3 {
				typ = tmproto.PrecommitType
			}
			v := &tmproto.Vote{Type: typ, Height: h, Round: r, BlockID: blockIDFor(bid), Timestamp: ts, ValidatorAddress: pub.Address(), ValidatorIndex: 0}
			req = fmt.Sprintf("vote step=%d h=%d r=%d ts=%d bid=%d", step, h, r, ts.Unix(), bid)
			signBytes = tmtypes.VoteSignBytes(chainID, v)
			err = call(func() error { return pv.SignVote(chainID, v) })
			sig, outTS = v.Signature, v.Timestamp
			retBytes = tmtypes.VoteSignBytes(chainID, v)
		}
		if fault {
			_ = os.Rename(away, dir)
			req += " [state dir unavailable]"
			c.Count("write-faults-injected", 1)
		}
		if panicked {
			// the process would have died. Even so, the message object must not already carry a fresh valid
			// signature whose record is not on disk (whoever survives the panic could send it).
			if len(sig) > 0 && pub.VerifySignature(signBytes, sig) {
				onDisk, ferr := readStateFile(stFile)
				if ferr != nil || !bytes.Equal(onDisk.Sig, sig) {
					trace = append(trace, req+" -> panic, but the message carries a signature")
					bad("released-before-durable", fmt.Sprintf("persisting the record for %s failed, yet the message already carries a valid signature that is not on disk", req))
					return
				}
			}
			// continue with a signer reloaded from disk, nothing was released
			trace = append(trace, req+" -> panic (no release)")
			pv = rcrypto.LoadSFilePV(keyFile, stFile, nil)
			c.Count("write-fault-refusals", 1)
			continue
		}
		trace = append(trace, fmt.Sprintf("%s -> err=%v", req, err != nil))
		cur := &release{H: h, R: r, S: step, SignBytes: signBytes, Sig: sig, TS: outTS, Req: req}
		if err != nil {
			if last != nil && !hrsLess(cur, last) && !(cur.H == last.H && cur.R == last.R && cur.S == last.S) {
				// refusing an advance is not a safety violation; count it
				c.Count("refused-advances", 1)
			}
			if last != nil && hrsLess(cur, last) {
				regr++
			}
			if last != nil && cur.H == last.H && cur.R == last.R && cur.S == last.S {
				conf++
			}
			continue
		}
		// ---- a signature was released: check it against the log --------------------------------
		if !pub.VerifySignature(retBytes, sig) {
			bad("returned-message-does-not-verify", fmt.Sprintf("the signature handed back for %s does not verify for the message as it was handed back (timestamp %v)", req, outTS))
			return
		}
		if last != nil && hrsLess(cur, last) {
			bad("signed-lower-hrs", fmt.Sprintf("released a signature for %s after having signed %d/%d/%d", req, last.H, last.R, last.S))
			return
		}
		if last != nil && cur.H == last.H && cur.R == last.R && cur.S == last.S {
			if bytes.Equal(signBytes, last.SignBytes) {
				if !bytes.Equal(sig, last.Sig) {
					bad("replay-different-signature", "the same message was signed again with a different signature")
					return
				}
				rep++
			} else if sameButTimestamp(step, signBytes, last.SignBytes) {
				if !bytes.Equal(sig, last.Sig) || !outTS.Equal(last.TS) {
					bad("timestamp-variant-resigned", fmt.Sprintf("a timestamp-only variant got signature/timestamp different from the original (ts %v vs %v)", outTS, last.TS))
					return
				}
				tsrep++
			} else {
				bad("double-sign", fmt.Sprintf("two different messages signed at %d/%d/%d: %s and %s", h, r, step, last.Req, req))
				return
			}
			continue
		}
		// new HRS
		if !pub.VerifySignature(signBytes, sig) {
			bad("invalid-signature", "released signature does not verify for the requested message")
			return
		}
		onDisk, ferr := readStateFile(stFile)
		if ferr != nil {
			bad("state-file-unreadable", ferr.Error())
			return
		}
		if onDisk.H != h || onDisk.R != r || onDisk.S != step || !bytes.Equal(onDisk.SignBytes, signBytes) || !bytes.Equal(onDisk.Sig, sig) {
			bad("released-before-durable", fmt.Sprintf("signature for %s released but the state file holds %d/%d/%d", req, onDisk.H, onDisk.R, onDisk.S))
			return
		}
		adv++
		last = cur
		log = append(log, cur)
	}
	c.Count("accepted-advances", adv)
	c.Count("same-message-replays", rep)
	c.Count("timestamp-only-replays", tsrep)
	c.Count("refused-conflicts", conf)
	c.Count("refused-regressions", regr)
	if adv > 0 && rep+tsrep > 0 && conf > 0 {
		c.Distinct(fmt.Sprintf("%d/%d/%d/%d/%d/%x", adv, rep, tsrep, conf, regr, sha256sum([]byte(strings.Join(trace, "|")))[:6]))
	}
	if i < 2 {
		t := trace
		if len(t) > 25 {
			t = t[:25]
		}
		c.Sample(map[string]interface{}{"sequence": i, "requests": t})
	}
}

// signerChildMain: `rv signer <dir> <count>`: signs an increasing stream, reports each release on stdout.
func signerChildMain(args []string) {
	dir := args[0]
	n, _ := strconv.Atoi(args[1])
	keyFile, stFile := filepath.Join(dir, "key.json"), filepath.Join(dir, "state.json")
	pv := rcrypto.LoadSFilePV(keyFile, stFile, nil)
	pub, _ := pv.GetPubKey()
	w := bufio.NewWriter(os.Stdout)
	h := pv.LastSignState.Height
	for k := 0; k < n; k++ {
		h++
		for step := 2; step <= 3; step++ {
			typ := tmproto.PrevoteType
			if step == 3 {
				typ = tmproto.PrecommitType
			}
			v := &tmproto.Vote{Type: typ, Height: h, Round: 0, BlockID: blockIDFor(1), Timestamp: time.Unix(1700000000+h, 123456789).UTC(), ValidatorAddress: pub.Address()}
			sb := tmtypes.VoteSignBytes("c20-chain", v)
			if err := pv.SignVote("c20-chain", v); err != nil {
				fmt.Fprintf(w, "ERR %v\n", err)
				w.Flush()
				os.Exit(1)
			}
			fmt.Fprintf(w, "REL %d %d %d %x %x\n", h, 0, step, sb, v.Signature)
			w.Flush()
		}
	}
}

func (c *Ctx) signerKill(i int, rng *rand.Rand) {
	dir := c.Dir(fmt.Sprintf("c20k-%d", i))
	defer os.RemoveAll(dir)
	keyFile, stFile := filepath.Join(dir, "key.json"), filepath.Join(dir, "state.json")
	prv := tmsecp.GenPrivKeySecp256k1(sha256sum([]byte(fmt.Sprint("c20k", c.Seed, i))))
	pv := rcrypto.NewSFilePV(prv, keyFile, stFile)
	pv.SaveWith(nil)
	cmd := exec.Command(selfBin, "signer", dir, "100000")
	out, err := cmd.StdoutPipe()
	if err != nil {
		c.Inconclusive(err.Error())
		return
	}
	if err := cmd.Start(); err != nil {
		c.Inconclusive(err.Error())
		return
	}
	target := 1 + rng.Intn(60)
	spin := rng.Intn(20000)
	sc := bufio.NewScanner(out)
	sc.Buffer(make([]byte, 1<<20), 1<<20)
	var last *release
	seen := 0
	for sc.Scan() {
		f := strings.Fields(sc.Text())
		if len(f) != 6 || f[0] != "REL" {
			break
		}
		h, _ := strconv.ParseInt(f[1], 10, 64)
		st, _ := strconv.Atoi(f[3])
		sb, _ := hex.DecodeString(f[4])
		sg, _ := hex.DecodeString(f[5])
		last = &release{H: h, R: 0, S: int8(st), SignBytes: sb, Sig: sg}
		seen++
		if seen >= target {
			for k := 0; k < spin; k++ {
				_ = k * k
			}
			break
		}
	}
	_ = cmd.Process.Kill()
	_ = cmd.Wait()
	c.Eval(1)
	c.Count("kills", 1)
	if last == nil {
		c.Inconclusive("signer child produced no release")
		return
	}
	onDisk, ferr := readStateFile(stFile)
	if ferr != nil {
		c.Violation(i, "signer:state-file-corrupt-after-kill", ferr.Error(), nil)
		return
	}
	if hrsLess(onDisk, last) {
		c.Violation(i, "signer:state-behind-released-signature", fmt.Sprintf("after the kill the state file is at %d/%d/%d but a signature for %d/%d/%d had been released", onDisk.H, onDisk.R, onDisk.S, last.H, last.R, last.S), nil)
		return
	}
	if onDisk.H == last.H && onDisk.S == last.S && (!bytes.Equal(onDisk.SignBytes, last.SignBytes) || !bytes.Equal(onDisk.Sig, last.Sig)) {
		c.Violation(i, "signer:state-differs-from-released", "state file holds another message/signature than the one released for the same height/round/step", nil)
		return
	}
	// re-request the message the file says was signed last: the original signature must come back
	pv2 := rcrypto.LoadSFilePV(keyFile, stFile, nil)
	typ := tmproto.PrevoteType
	if onDisk.S == 3 {
		typ = tmproto.PrecommitType
	}
	v := &tmproto.Vote{Type: typ, Height: onDisk.H, Round: 0, BlockID: blockIDFor(1), Timestamp: time.Unix(1700000000+onDisk.H, 123456789).UTC(), ValidatorAddress: prv.PubKey().Address()}
	if err := pv2.SignVote("c20-chain", v); err != nil {
		c.Violation(i, "signer:replay-refused-after-kill", err.Error(), nil)
		return
	}
	if !bytes.Equal(v.Signature, onDisk.Sig) {
		c.Violation(i, "signer:replay-resigned-after-kill", "re-requesting the last signed message after the kill produced a new signature", nil)
		return
	}
	// a timestamp-only variant gets the original signature and the original timestamp back
	v3 := &tmproto.Vote{Type: typ, Height: onDisk.H, Round: 0, BlockID: blockIDFor(1), Timestamp: v.Timestamp.Add(1777 * time.Nanosecond), ValidatorAddress: prv.PubKey().Address()}
	if err := pv2.SignVote("c20-chain", v3); err != nil {
		c.Violation(i, "signer:timestamp-variant-refused-after-kill", err.Error(), nil)
		return
	}
	if !bytes.Equal(v3.Signature, onDisk.Sig) || !v3.Timestamp.Equal(v.Timestamp) || !prv.PubKey().VerifySignature(tmtypes.VoteSignBytes("c20-chain", v3), v3.Signature) {
		c.Violation(i, "signer:timestamp-variant-resigned-after-kill", fmt.Sprintf("timestamp-only variant after the kill: signature/timestamp differ from the original or do not verify (ts %v vs %v)", v3.Timestamp, v.Timestamp), nil)
		return
	}
	// and a conflicting message at the same HRS must be refused
	v2 := &tmproto.Vote{Type: typ, Height: onDisk.H, Round: 0, BlockID: blockIDFor(5), Timestamp: v.Timestamp, ValidatorAddress: prv.PubKey().Address()}
	if err := pv2.SignVote("c20-chain", v2); err == nil {
		c.Violation(i, "signer:double-sign-after-kill", "a conflicting vote at the last signed height/round/step was signed after the restart", nil)
		return
	}
	c.Distinct(fmt.Sprintf("kill/%d/%d", i, seen))
	c.Count("kill-recoveries-verified", 1)
}

func init() { checks["C20"] = checkC20 }
