package main

// Reference EVM: go-ethereum's own core.ApplyMessage over a private in-memory StateDB whose
// balances and nonces are overwritten from the model before every transaction and copied
// back after it. It shares the interpreter with the code under test, but none of the
// application's sync-in / sync-out / snapshot bookkeeping.

import (
	"encoding/hex"
	"fmt"
	"math/big"
	"strings"

	"github.com/ethereum/go-ethereum/common"
	"github.com/ethereum/go-ethereum/core"
	"github.com/ethereum/go-ethereum/core/rawdb"
	"github.com/ethereum/go-ethereum/core/state"
	ethtypes "github.com/ethereum/go-ethereum/core/types"
	"github.com/ethereum/go-ethereum/core/vm"
	ethcrypto "github.com/ethereum/go-ethereum/crypto"
	"github.com/ethereum/go-ethereum/params"
	"github.com/ethereum/go-ethereum/rlp"
	"github.com/ethereum/go-ethereum/trie"
	rctypes "github.com/rigochain/rigo-go/ctrlers/types"
	"github.com/rigochain/rigo-go/ctrlers/vm/evm"
	abci "github.com/tendermint/tendermint/abci/types"
)

const refBlockGas = uint64(25_000_000)

// recState records every address the interpreter touches.
type recState struct {
	*state.StateDB
	touched map[common.Address]struct{}
	created map[common.Address]struct{}
}

func (s *recState) t(a common.Address) { s.touched[a] = struct{}{} }
func (s *recState) CreateAccount(a common.Address) {
	s.t(a)
	s.created[a] = struct{}{}
	s.StateDB.CreateAccount(a)
}
func (s *recState) SubBalance(a common.Address, v *big.Int)     { s.t(a); s.StateDB.SubBalance(a, v) }
func (s *recState) AddBalance(a common.Address, v *big.Int)     { s.t(a); s.StateDB.AddBalance(a, v) }
func (s *recState) SetNonce(a common.Address, n uint64)         { s.t(a); s.StateDB.SetNonce(a, n) }
func (s *recState) SetCode(a common.Address, c []byte)          { s.t(a); s.StateDB.SetCode(a, c) }
func (s *recState) Suicide(a common.Address) bool               { s.t(a); return s.StateDB.Suicide(a) }
func (s *recState) SetState(a common.Address, k, v common.Hash) { s.t(a); s.StateDB.SetState(a, k, v) }
func (s *recState) AddAddressToAccessList(a common.Address) {
	s.t(a)
	s.StateDB.AddAddressToAccessList(a)
}

var _ vm.StateDB = (*recState)(nil)

type RefEVM struct {
	sdb       *state.StateDB
	cfg       *params.ChainConfig
	gp        *core.GasPool
	height    int64
	time      int64
	coinbase  common.Address
	txIdx     int
	Contracts map[string]bool          // every address that ever held code (hex, upper case)
	Snaps     map[int64]*state.StateDB // reference state after each block (for vm_call at past heights)
	Destroyed map[string]bool

	usedBlockHash bool
	BlockTouched  map[string]bool // addresses touched by the contract transactions of the current block (hex, upper case)
}

func NewRefEVM() *RefEVM {
	db := state.NewDatabase(rawdb.NewMemoryDatabase())
	sdb, err := state.New(common.Hash{}, db, nil)
	if err != nil {
		panic(err)
	}
	return &RefEVM{sdb: sdb, cfg: evm.RIGOMainnetEVMCtrlerChainConfig, Contracts: map[string]bool{}, Destroyed: map[string]bool{}, Snaps: map[int64]*state.StateDB{}}
}

func (r *RefEVM) BeginBlock(h, tm int64, proposer []byte) {
	r.height, r.time, r.txIdx = h, tm, 0
	r.coinbase = common.Address{}
	copy(r.coinbase[:], proposer)
	if len(proposer) > 20 {
		copy(r.coinbase[:], proposer[:20])
	}
	r.gp = new(core.GasPool).AddGas(refBlockGas)
	r.BlockTouched = map[string]bool{}
}

func toEth(addr string) common.Address {
	var a common.Address
	b, _ := hex.DecodeString(addr)
	copy(a[:], b)
	return a
}

func (r *RefEVM) HasCode(addr string) bool {
	if len(addr) != 40 {
		return false
	}
	return len(r.sdb.GetCode(toEth(addr))) > 0
}

func (r *RefEVM) blockCtx() vm.BlockContext {
	return vm.BlockContext{
		CanTransfer: func(db vm.StateDB, a common.Address, amt *big.Int) bool { return db.GetBalance(a).Cmp(amt) >= 0 },
		Transfer: func(db vm.StateDB, s, d common.Address, amt *big.Int) {
			db.SubBalance(s, amt)
			db.AddBalance(d, amt)
		},
		GetHash: func(uint64) common.Hash {
			r.usedBlockHash = true // the properties do not fix what BLOCKHASH answers: the answer of such a call is not compared
			return common.Hash{}
		},
		Coinbase:    r.coinbase,
		BlockNumber: big.NewInt(r.height),
		Time:        big.NewInt(r.time),
		Difficulty:  big.NewInt(1),
		BaseFee:     big.NewInt(0),
		GasLimit:    refBlockGas,
	}
}

type refResult struct {
	OK            bool
	ErrText       string
	Ret           []byte
	GasUsed       uint64
	Logs          []*ethtypes.Log
	Created       string   // deployed contract address
	CreatedAll    []string // every account that received code in this transaction
	Touched       []common.Address
	Burn          *big.Int // value destroyed by self-destruct-to-self
	UsedBlockHash bool     // BLOCKHASH was executed
}

// syncIn overwrites balances and nonces of all model accounts.
func (r *RefEVM) syncIn(ws *MState) {
	for k, a := range ws.Accounts {
		if len(k) != 40 {
			continue
		}
		ea := toEth(k)
		if a.empty() && !r.sdb.Exist(ea) {
			continue
		}
		if r.sdb.GetBalance(ea).Cmp(a.Bal) != 0 {
			r.sdb.SetBalance(ea, new(big.Int).Set(a.Bal))
		}
		if r.sdb.GetNonce(ea) != a.Nonce {
			r.sdb.SetNonce(ea, a.Nonce)
		}
	}
	r.sdb.Finalise(false) // make the synced values the pre-transaction state (clears journal, keeps objects)
}

func (r *RefEVM) exec(ws *MState, from, to []byte, nonce, gas uint64, price, amt *big.Int, data []byte, txhash []byte) *refResult {
	r.syncIn(ws)
	rs := &recState{StateDB: r.sdb, touched: map[common.Address]struct{}{}, created: map[common.Address]struct{}{}}
	var fromA common.Address
	copy(fromA[:], from)
	var toA *common.Address
	isCreate := true
	for _, b := range to {
		if b != 0 {
			isCreate = false
		}
	}
	if !isCreate {
		toA = new(common.Address)
		copy(toA[:], to)
	}
	// total supply before (for self-destruct burn accounting)
	snap := r.sdb.Snapshot()
	var th common.Hash
	copy(th[:], txhash)
	r.sdb.Prepare(th, r.txIdx)
	r.txIdx++
	msg := ethtypes.NewMessage(fromA, toA, nonce, new(big.Int).Set(amt), gas, new(big.Int).Set(price), big.NewInt(0), big.NewInt(0), data, nil, false)
	e := vm.NewEVM(r.blockCtx(), core.NewEVMTxContext(msg), rs, r.cfg, vm.Config{NoBaseFee: true})
	res := &refResult{Burn: new(big.Int)}
	r.usedBlockHash = false
	defer func() {
		res.UsedBlockHash = r.usedBlockHash
		if r.BlockTouched != nil {
			// whatever a contract transaction touched (also one that failed) is the EVM's business in this block
			for a := range rs.touched {
				r.BlockTouched[strings.ToUpper(hex.EncodeToString(a[:]))] = true
			}
			r.BlockTouched[strings.ToUpper(hex.EncodeToString(r.coinbase[:]))] = true // gas accounting involves the coinbase
		}
	}()
	rs.t(fromA)
	if toA != nil {
		rs.t(*toA)
	}
	// pre-balances of everything, to measure burns
	xres, err := core.ApplyMessage(e, msg, r.gp)
	if err != nil {
		r.sdb.RevertToSnapshot(snap)
		r.sdb.Finalise(false)
		res.ErrText = err.Error()
		return res
	}
	if xres.Failed() {
		r.sdb.RevertToSnapshot(snap)
		r.sdb.Finalise(false)
		res.ErrText = xres.Err.Error()
		res.Ret = xres.ReturnData
		return res
	}
	res.OK = true
	res.Ret = xres.ReturnData
	res.GasUsed = xres.UsedGas
	res.Logs = r.sdb.GetLogs(th, common.Hash{})
	for a := range rs.touched {
		res.Touched = append(res.Touched, a)
	}
	for a := range rs.touched {
		if r.sdb.HasSuicided(a) {
			r.Destroyed[hx(a[:])] = true
		}
	}
	// value destroyed by the EVM's own rules (self-destruct into self, value sent to a destructed
	// account): what the touched accounts held before, minus what they hold now, minus the gas fee.
	preSum, postSum := new(big.Int), new(big.Int)
	for a := range rs.touched {
		if ma := ws.Accounts[hx(a[:])]; ma != nil {
			preSum.Add(preSum, ma.Bal)
		}
		if !r.sdb.HasSuicided(a) { // whatever a self-destructed account holds at the end of the transaction vanishes with it
			postSum.Add(postSum, r.sdb.GetBalance(a))
		}
	}
	res.Burn.Sub(preSum, postSum)
	res.Burn.Sub(res.Burn, new(big.Int).Mul(new(big.Int).SetUint64(xres.UsedGas), price))
	if isCreate {
		ca := ethcrypto.CreateAddress(fromA, nonce)
		res.Created = hx(ca[:])
	}
	// read post-state before Finalise deletes destructed objects
	type post struct {
		bal   *big.Int
		nonce uint64
		dead  bool
	}
	posts := map[common.Address]post{}
	for a := range rs.touched {
		posts[a] = post{bal: new(big.Int).Set(r.sdb.GetBalance(a)), nonce: r.sdb.GetNonce(a), dead: r.sdb.HasSuicided(a)}
	}
	r.sdb.Finalise(true)
	for a, p := range posts {
		k := hx(a[:])
		if p.dead {
			// the EVM removes the account: balance and nonce read as zero afterwards
			ma := ws.acct(k)
			ma.Bal = new(big.Int)
			ma.Nonce = 0
			continue
		}
		if p.bal.Sign() == 0 && p.nonce == 0 && ws.Accounts[k] == nil {
			continue
		}
		ma := ws.acct(k)
		ma.Bal = p.bal
		ma.Nonce = p.nonce
		if len(r.sdb.GetCode(a)) > 0 {
			r.Contracts[k] = true
		}
	}
	for a := range rs.created {
		if len(r.sdb.GetCode(a)) > 0 {
			r.Contracts[hx(a[:])] = true
			res.CreatedAll = append(res.CreatedAll, hx(a[:]))
		}
	}
	return res
}

// Snapshot keeps the reference state as it is after block h.
func (r *RefEVM) Snapshot(h int64) {
	r.sdb.Finalise(false)
	r.Snaps[h] = r.sdb.Copy()
}

// CallAt runs a read-only call against the reference state after block h, with the native balances
// and nonces of state st (the observed state at h) - what a vm_call query at height h must return.
func (r *RefEVM) CallAt(st *MState, from, to, data []byte, h, tm int64) (*core.ExecutionResult, error) {
	base := r.Snaps[h]
	if base == nil {
		return nil, fmt.Errorf("no reference snapshot for height %d", h)
	}
	cp := base.Copy()
	for k, a := range st.Accounts {
		if len(k) != 40 {
			continue
		}
		ea := toEth(k)
		if a.empty() && !cp.Exist(ea) {
			continue
		}
		cp.SetBalance(ea, new(big.Int).Set(a.Bal))
		cp.SetNonce(ea, a.Nonce)
	}
	cp.Finalise(false)
	var fromA common.Address
	copy(fromA[:], from)
	var toA *common.Address
	zero := true
	for _, b := range to {
		if b != 0 {
			zero = false
		}
	}
	if !zero {
		toA = new(common.Address)
		copy(toA[:], to)
	}
	msg := ethtypes.NewMessage(fromA, toA, 0, big.NewInt(0), refBlockGas, big.NewInt(0), big.NewInt(0), big.NewInt(0), data, nil, true)
	bc := r.blockCtx()
	bc.Coinbase = fromA
	bc.BlockNumber = big.NewInt(h)
	bc.Time = big.NewInt(tm)
	e := vm.NewEVM(bc, core.NewEVMTxContext(msg), cp, r.cfg, vm.Config{NoBaseFee: true})
	return core.ApplyMessage(e, msg, new(core.GasPool).AddGas(refBlockGas))
}

// ExpectedContract renders code and storage of a contract in the reference state.
func (r *RefEVM) ExpectedContract(addr string) DContract {
	ea := toEth(addr)
	dc := DContract{Addr: addr, Exist: r.sdb.Exist(ea), Code: hx(r.sdb.GetCode(ea)), Storage: map[string]string{}}
	// commit-free walk: ForEachStorage needs a trie; use the dump of dirty+committed storage through a copy
	cp := r.sdb.Copy()
	root := cp.IntermediateRoot(true)
	_ = root
	if tr := cp.StorageTrie(ea); tr != nil {
		it := trie.NewIterator(tr.NodeIterator(nil))
		for it.Next() {
			_, content, _, err := rlp.Split(it.Value)
			if err != nil {
				continue
			}
			vh := common.BytesToHash(content)
			if vh != (common.Hash{}) {
				dc.Storage[hx(it.Key)] = hx(vh[:])
			}
		}
	}
	return dc
}

// evmEventView renders logs as (address, topics, data) tuples, lower case.
func evmEventView(logs []*ethtypes.Log, created string) string {
	var sb strings.Builder
	for _, l := range logs {
		fmt.Fprintf(&sb, "[%s", hex.EncodeToString(l.Address[:]))
		for _, t := range l.Topics {
			fmt.Fprintf(&sb, " t:%s", hex.EncodeToString(t.Bytes()))
		}
		fmt.Fprintf(&sb, " d:%s]", hex.EncodeToString(l.Data))
	}
	return sb.String()
}

// respEvmEventView parses the application's 'evm' event back into the same tuples
// (attribute names: contract, topic.N, data; everything else is presentation).
func respEvmEventView(r *abci.ResponseDeliverTx) string {
	var sb strings.Builder
	open := false
	data := ""
	flush := func() {
		if open {
			fmt.Fprintf(&sb, " d:%s]", data)
			open, data = false, ""
		}
	}
	for _, e := range r.Events {
		if e.Type != "evm" {
			continue
		}
		for _, a := range e.Attributes {
			k, v := string(a.Key), strings.ToLower(string(a.Value))
			switch {
			case k == "contract":
				flush()
				fmt.Fprintf(&sb, "[%s", v)
				open = true
			case strings.HasPrefix(k, "topic."):
				fmt.Fprintf(&sb, " t:%s", v)
			case k == "data":
				data = v
			}
		}
	}
	flush()
	return sb.String()
}

func (m *Model) applyEVMTx(ws *MState, ti *TxInfo, r *abci.ResponseDeliverTx, h int64, P *DParams, price *big.Int,
	sumFee *big.Int, out *stepOut, idx int) {
	issue := func(prop, sig, detail string) {
		out.Issues = append(out.Issues, Issue{prop, sig, fmt.Sprintf("block %d tx %d (%s): %s", h, idx, ti.Label, detail)})
	}
	tx := ti.Tx
	if m.Ref == nil {
		if r.Code == 0 {
			issue("", "evm-tx-without-reference", "contract transaction executed but no reference EVM is attached")
		}
		return
	}
	var data []byte
	if pl, ok := tx.Payload.(*rctypes.TrxPayloadContract); ok && pl != nil {
		data = pl.Data
	}
	if len(tx.From) != 20 || len(tx.To) != 20 {
		if r.Code == 0 {
			issue("C09", "bad-address-accepted", "contract transaction with malformed address succeeded")
		}
		return
	}
	// admission rules that apply before the EVM is entered
	admissible := true
	from := hx(tx.From)
	snd := ws.Accounts[from]
	gp := tx.GasPrice.ToBig()
	fee := new(big.Int).Mul(new(big.Int).SetUint64(tx.Gas), gp)
	minFee := new(big.Int).Mul(new(big.Int).SetUint64(P.MinTrxGas), price)
	if snd == nil || gp.Cmp(price) != 0 || fee.Cmp(minFee) < 0 || !ti.SigOK || tx.Nonce != snd.Nonce ||
		snd.Bal.Cmp(new(big.Int).Add(fee, tx.Amount.ToBig())) < 0 || tx.Gas > 1<<63-1 {
		admissible = false
	}
	if r.Code == 0 {
		if snd == nil {
			issue("C02", "unknown-sender-accepted", "sender has no account")
			return
		}
		if !ti.SigOK {
			issue("C03", "bad-signature-accepted", "contract transaction whose signature does not verify independently succeeded")
		}
		if tx.Nonce != snd.Nonce {
			issue("C04", "nonce-mismatch-accepted", fmt.Sprintf("tx nonce %d, sender nonce %d", tx.Nonce, snd.Nonce))
		}
		if gp.Cmp(price) != 0 {
			issue("C16", "wrong-gasprice-accepted", fmt.Sprintf("tx price %s, active price %s", gp, price))
		}
		if fee.Cmp(minFee) < 0 {
			issue("C16", "fee-below-minimum-accepted", fmt.Sprintf("fee %s < minimum %s", fee, minFee))
		}
		if ig, err := core.IntrinsicGas(data, nil, ref0(tx.To), true, true); err == nil && tx.Gas < ig {
			issue("C16", "below-intrinsic-gas-accepted", fmt.Sprintf("gas limit %d below intrinsic gas %d", tx.Gas, ig))
		}
		if uint64(r.GasWanted) != tx.Gas || uint64(r.GasUsed) > tx.Gas {
			issue("C16", "contract-gas-fields", fmt.Sprintf("gas=%d GasWanted=%d GasUsed=%d", tx.Gas, r.GasWanted, r.GasUsed))
		}
	}
	if !admissible {
		// the reference is not consulted: the transaction must not have had any effect
		if r.Code == 0 {
			// effects unknown; let the state diff speak
		}
		return
	}
	ref := m.Ref.exec(ws, tx.From, tx.To, tx.Nonce, tx.Gas, price, tx.Amount.ToBig(), data, addrBytes(ti.Hash))
	if ref.OK != (r.Code == 0) {
		issue("C17", "evm-outcome-mismatch", fmt.Sprintf("reference EVM success=%v (%s), application code=%d log=%q", ref.OK, ref.ErrText, r.Code, r.Log))
		return
	}
	if !ref.OK {
		if len(ref.Ret) > 0 && hx(ref.Ret) != hx(r.Data) {
			issue("C17", "evm-revert-data-mismatch", fmt.Sprintf("reference revert data %x, application %x", ref.Ret, r.Data))
		}
		return
	}
	if ref.GasUsed != uint64(r.GasUsed) {
		issue("C17", "evm-gas-mismatch", fmt.Sprintf("reference gas used %d, application %d", ref.GasUsed, r.GasUsed))
	}
	wantRet := ref.Ret
	if ref.Created != "" {
		wantRet = addrBytes(ref.Created)
		ws.acct(ref.Created).Code = ti.Hash
	}
	for _, ca := range ref.CreatedAll {
		// every contract account carries the hash of the transaction that created it
		if a := ws.acct(ca); a.Code == "" {
			a.Code = ti.Hash
		}
	}
	if hx(wantRet) != hx(r.Data) && !(ref.Created != "" && hx(ref.Ret) == hx(r.Data)) && !ref.UsedBlockHash {
		// for a deployment the application answers with the new address (its convention); the deployed code would be fine too
		issue("C17", "evm-return-data-mismatch", fmt.Sprintf("reference %x, application %x", wantRet, r.Data))
	}
	if ref.Created != "" {
		// the created address must be announced: in the return data or in the event
		if hx(r.Data) != ref.Created && !strings.Contains(strings.ToUpper(eventsView(r.Events)), strings.ToUpper(hex.EncodeToString([]byte(ref.Created)))) && !strings.Contains(strings.ToUpper(respAttr(r, "contractAddress")), ref.Created) {
			issue("C17", "evm-created-address-not-reported", fmt.Sprintf("deployment created %s, the response does not name it", ref.Created))
		}
	}
	if ev, rv := evmEventView(ref.Logs, ref.Created), respEvmEventView(r); ev != rv {
		issue("C17", "evm-logs-mismatch", fmt.Sprintf("reference logs %s, application %s", ev, rv))
	}
	sumFee.Add(sumFee, new(big.Int).Mul(new(big.Int).SetUint64(ref.GasUsed), price))
	out.Burned.Add(out.Burned, ref.Burn)
}

// ref0: is the receiver the zero address (contract creation)?
func ref0(to []byte) bool {
	for _, b := range to {
		if b != 0 {
			return false
		}
	}
	return true
}

func respAttr(r *abci.ResponseDeliverTx, key string) string {
	for _, e := range r.Events {
		for _, a := range e.Attributes {
			if string(a.Key) == key {
				return string(a.Value)
			}
		}
	}
	return ""
}

// admissionIssues judges a transaction that CheckTx admitted (code 0) against the stateless admission rules of C16
// (and the signature rule of C03). pa are the parameters committed before the block the transaction was built for,
// pb those committed by it: a rule counts as broken only if it is broken under both (a parameter change may come
// into force in between).
func admissionIssues(ti *TxInfo, pa, pb DParams) []Issue {
	tx := ti.Tx
	if tx == nil || len(tx.From) != 20 || len(tx.To) != 20 || tx.GasPrice == nil {
		return nil
	}
	var out []Issue
	both := func(f func(P DParams) bool) bool { return f(pa) && f(pb) }
	gp := tx.GasPrice.ToBig()
	if both(func(P DParams) bool { return gp.Cmp(bigDec(P.GasPrice)) != 0 }) {
		out = append(out, Issue{"C16", "mempool-admits-wrong-gasprice", fmt.Sprintf("CheckTx admitted gas price %s (governance: %s / %s)", gp, pa.GasPrice, pb.GasPrice)})
	}
	fee := new(big.Int).Mul(new(big.Int).SetUint64(tx.Gas), gp)
	if both(func(P DParams) bool {
		return fee.Cmp(new(big.Int).Mul(new(big.Int).SetUint64(P.MinTrxGas), bigDec(P.GasPrice))) < 0
	}) {
		out = append(out, Issue{"C16", "mempool-admits-fee-below-minimum", fmt.Sprintf("CheckTx admitted gas %d x price %s below the minimum fee", tx.Gas, gp)})
	}
	if tx.Type == rctypes.TRX_CONTRACT {
		var data []byte
		if pl, ok := tx.Payload.(*rctypes.TrxPayloadContract); ok && pl != nil {
			data = pl.Data
		}
		if ig, err := core.IntrinsicGas(data, nil, ref0(tx.To), true, true); err == nil && tx.Gas < ig {
			out = append(out, Issue{"C16", "mempool-admits-below-intrinsic-gas", fmt.Sprintf("CheckTx admitted a contract transaction (creation=%v, %d bytes of data) with gas limit %d below its intrinsic gas %d", ref0(tx.To), len(data), tx.Gas, ig)})
		}
	}
	if !ti.SigOK {
		out = append(out, Issue{"C03", "mempool-admits-bad-signature", "CheckTx admitted a transaction whose signature the generator broke"})
	}
	return out
}
