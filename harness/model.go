package main

// One-step reference model: predicts state(h) from the observed state(h-1) (and the
// observed states h-2, h-4 for the lagged rules), the block's inputs and the set of
// transactions that returned code 0. It restates the rules of the properties; it shares
// no code with the implementation's controllers.

import (
	"bytes"
	"encoding/hex"
	"encoding/json"
	"fmt"
	"math/big"
	"sort"
	"strings"

	rctypes "github.com/rigochain/rigo-go/ctrlers/types"
	abci "github.com/tendermint/tendermint/abci/types"
)

var big1e18 = new(big.Int).Exp(big.NewInt(10), big.NewInt(18), nil)
var two256 = new(big.Int).Lsh(big.NewInt(1), 256)

const optGovParams = 0x0101

type TxInfo struct {
	Tx     *rctypes.Trx // fields as constructed by the generator (nil: undecodable junk)
	Raw    []byte
	Hash   string // hex of sha256(raw)
	Label  string // what the generator intended
	Pub    []byte // sender public key (33 bytes) when signed by a known key
	SigOK  bool   // independent verification result (filled by the C03 oracle; generator default true)
	Intend bool   // generator expected success
}

type Issue struct {
	Prop   string // property the broken rule belongs to ("" = unattributed)
	Sig    string
	Detail string
}

type Model struct {
	G     *GenCfg
	Hist  map[int64]*MState // observed committed states; Hist[0] = genesis pre-state
	Sim   *TMSim
	Ref   *RefEVM
	Times map[int64]int64
}

func genesisState(g *GenCfg) *MState {
	s := newMState()
	s.Params = g.Params
	for _, h := range g.Holders {
		a := s.acct(h.Key.A())
		a.Bal.Add(a.Bal, h.Balance)
	}
	zero := strings.Repeat("0", 64)
	for _, v := range g.Validators {
		s.acct(v.Key.A())
		d := &MDeleg{Addr: v.Key.A(), PubKey: hx(v.Key.Pub), Self: v.Power, Total: v.Power}
		d.Stakes = append(d.Stakes, &MStake{Owner: v.Key.A(), To: v.Key.A(), TxHash: zero, Start: 1, Power: v.Power})
		s.Delegatees[d.Addr] = d
	}
	return s
}

func NewModel(g *GenCfg, sim *TMSim) *Model {
	m := &Model{G: g, Hist: map[int64]*MState{}, Sim: sim, Times: map[int64]int64{}}
	m.Hist[0] = genesisState(g)
	return m
}

func minPowerOf(p *DParams) int64 {
	v := new(big.Int).Div(bigDec(p.MinValidatorStake), big1e18)
	return v.Int64()
}

func addrBytes(h string) []byte {
	b, _ := hex.DecodeString(h)
	return b
}

// rankDelegatees returns the eligible delegatees of s in selection order.
func rankDelegatees(s *MState, p *DParams) []*MDeleg {
	minP := minPowerOf(p)
	var el []*MDeleg
	for _, d := range s.Delegatees {
		if d.Self >= minP {
			el = append(el, d)
		}
	}
	sort.Slice(el, func(i, j int) bool {
		if el[i].Total != el[j].Total {
			return el[i].Total > el[j].Total
		}
		if len(el[i].Stakes) != len(el[j].Stakes) {
			return len(el[i].Stakes) > len(el[j].Stakes)
		}
		return bytes.Compare(addrBytes(el[i].Addr), addrBytes(el[j].Addr)) > 0
	})
	return el
}

func topN(s *MState, p *DParams) []*MDeleg {
	el := rankDelegatees(s, p)
	n := int(p.MaxValidatorCnt)
	if n < 0 {
		n = 0
	}
	if len(el) > n {
		el = el[:n]
	}
	return el
}

// lastValidators: the in-memory validator list in force while block h executes
// (announced at EndBlock(h-1), computed from the state committed at h-2).
func (m *Model) lastValidators(h int64) []*MDeleg {
	if h <= 1 {
		// before the first block ends, consensus runs with the genesis validators
		g := m.Hist[0]
		all := g.Params
		all.MaxValidatorCnt = int64(len(g.Delegatees))
		all.MinValidatorStake = "0"
		return topN(g, &all)
	}
	s := m.Hist[h-2]
	if s == nil {
		return nil
	}
	return topN(s, &s.Params)
}

// tieAtCut: do the last included and the first excluded candidate of the validator list in force at h have equal power?
func (m *Model) tieAtCut(h int64) bool {
	if h <= 1 {
		return false
	}
	s := m.Hist[h-2]
	if s == nil {
		return false
	}
	r := rankDelegatees(s, &s.Params)
	n := int(s.Params.MaxValidatorCnt)
	return n > 0 && len(r) > n && r[n-1].Total == r[n].Total
}

func (d *MDeleg) recompute() {
	d.Self, d.Total = 0, 0
	for _, s := range d.Stakes {
		if s.Owner == d.Addr {
			d.Self += s.Power
		}
		d.Total += s.Power
	}
}

func (m *Model) rewardRec(ws *MState, addr string) *MReward {
	r := ws.Rewards[addr]
	if r == nil {
		r = &MReward{Addr: addr, Issued: new(big.Int), Withdrawn: new(big.Int), Slashed: new(big.Int), Cumulated: new(big.Int)}
		ws.Rewards[addr] = r
	}
	return r
}

func punishProposal(p *MProposal, addr string, ratio int64) {
	v := p.Voters[addr]
	if v == nil {
		return
	}
	choice := v.Choice
	if choice >= 0 && int(choice) < len(p.Options) {
		p.Options[choice].Votes -= v.Power
		v.Choice = -1
	}
	sl := v.Power * ratio / 100
	v.Power -= sl
	if v.Power <= 0 {
		delete(p.Voters, addr)
	} else if choice >= 0 && int(choice) < len(p.Options) {
		p.Options[choice].Votes += v.Power
		v.Choice = choice
	}
	p.TotalPower -= sl
	p.Majority = p.TotalPower * 2 / 3
}

func slashDelegatee(d *MDeleg, ratio int64) {
	var keep []*MStake
	for _, s := range d.Stakes {
		sl := s.Power * ratio / 100
		if sl < 1 {
			continue // too small to be reduced: forfeited
		}
		s.Power -= sl
		keep = append(keep, s)
	}
	d.Stakes = keep
	d.recompute()
}

func markNotSigned(d *MDeleg, h int64) {
	if n := len(d.NotSigned); n > 0 && d.NotSigned[n-1] >= h {
		return
	}
	d.NotSigned = append(d.NotSigned, h)
}

// countInWindow counts the missed-block marks inside [h0, h1].
func countInWindow(d *MDeleg, h0, h1 int64) int {
	cnt := 0
	for _, h := range d.NotSigned {
		if h >= h0 && h <= h1 {
			cnt++
		}
	}
	return cnt
}

type stepOut struct {
	Expected *MState
	Issues   []Issue
	Burned   *big.Int // value destroyed by rule in this block (slash/forfeit, proposer-less fees, self-destruct burns)
	Minted   *big.Int // rewards withdrawn in this block
	Jailed   []string
	Slashed  []string
	Frozen   int
	Applied  int
	// Ambiguous: keys (proposal hashes) whose expected content is not pinned by any property in this block
	Ambiguous map[string]bool
	// warm-up heights only: admissible issuance per owner [min,max] and what the model itself issued
	FormerContractTransfers int
	RewardRange             map[string][2]*big.Int
	ModelIssued             map[string]*big.Int
}

// Step predicts block h. pre = observed state(h-1).
func (m *Model) Step(b *BlockSpec, txs []*TxInfo, res *BlockResult) *stepOut {
	h := b.Height
	pre := m.Hist[h-1]
	ws := pre.clone()
	ws.Height = h
	if f := h - 1 - pre.Params.SignedBlocksWindow; f > 0 {
		ws.MarkFloor = f
	}
	P := pre.Params // parameters in force during block h
	out := &stepOut{Burned: new(big.Int), Minted: new(big.Int), Ambiguous: map[string]bool{}}
	issue := func(prop, sig, detail string) {
		out.Issues = append(out.Issues, Issue{prop, sig, fmt.Sprintf("block %d: %s", h, detail)})
	}

	// ---- BeginBlock: evidence ------------------------------------------------------
	for _, ev := range b.Evidence {
		a := hx(ev.Addr)
		for k, p := range ws.Proposals {
			if p.Voters[a] != nil && p.End < h {
				// the proposal is closed in this very block: whether the closing tally sees this punishment is not pinned down
				out.Ambiguous[k] = true
			}
			punishProposal(p, a, P.SlashRatio)
		}
	}
	for _, ev := range b.Evidence {
		a := hx(ev.Addr)
		if d := ws.Delegatees[a]; d != nil {
			before := d.Total
			slashDelegatee(d, P.SlashRatio)
			out.Burned.Add(out.Burned, new(big.Int).Mul(big.NewInt(before-d.Total), big1e18))
			out.Slashed = append(out.Slashed, a)
		}
	}

	// ---- BeginBlock: rewards and missed blocks -------------------------------------
	issued := new(big.Int)
	if len(b.Votes) > 0 {
		hp := h - 4
		var src *MState
		switch {
		case hp >= 1:
			src = m.Hist[hp]
		case hp == 0:
			src = m.Hist[h-1] // warm-up: the code reads the latest version
		default:
			src = m.Hist[1] // warm-up
		}
		rpp := bigDec(P.RewardPerPower)
		if hp < 1 {
			// warm-up (h <= 4): "the height consensus derived the power from" does not exist yet. The model follows
			// what the code does, but any committed state a reasonable reading could pick is tolerated: per owner
			// the issuance may lie between the smallest and the largest amount over the candidate source states.
			out.RewardRange = map[string][2]*big.Int{}
			cands := []*MState{m.Hist[0]}
			for hh := int64(1); hh < h; hh++ {
				if m.Hist[hh] != nil {
					cands = append(cands, m.Hist[hh])
				}
			}
			per := func(st *MState) map[string]*big.Int {
				o := map[string]*big.Int{}
				for _, v := range b.Votes {
					if !v.Signed {
						continue
					}
					if d := st.Delegatees[hx(v.Addr)]; d != nil {
						for _, sk := range d.Stakes {
							if o[sk.Owner] == nil {
								o[sk.Owner] = new(big.Int)
							}
							o[sk.Owner].Add(o[sk.Owner], new(big.Int).Mul(big.NewInt(sk.Power), rpp))
						}
					}
				}
				return o
			}
			for _, st := range cands {
				for own, amt := range per(st) {
					rg, ok := out.RewardRange[own]
					if !ok {
						rg = [2]*big.Int{new(big.Int), new(big.Int)}
					}
					if amt.Cmp(rg[1]) > 0 {
						rg[1] = amt
					}
					out.RewardRange[own] = rg
				}
			}
		}
		for _, v := range b.Votes {
			a := hx(v.Addr)
			if v.Signed {
				if src == nil {
					continue
				}
				d := src.Delegatees[a]
				if d == nil {
					continue
				}
				if hp < 1 && d.Total != v.Power {
					continue // warm-up only: stale power
				}
				for _, s := range d.Stakes {
					r := m.rewardRec(ws, s.Owner)
					amt := new(big.Int).Mul(big.NewInt(s.Power), rpp)
					if r.Height < h {
						r.Issued = new(big.Int).Set(amt)
						r.Height = h
					} else {
						r.Issued.Add(r.Issued, amt)
					}
					r.Cumulated.Add(r.Cumulated, amt)
					issued.Add(issued, amt)
					if out.RewardRange != nil {
						if out.ModelIssued == nil {
							out.ModelIssued = map[string]*big.Int{}
						}
						if out.ModelIssued[s.Owner] == nil {
							out.ModelIssued[s.Owner] = new(big.Int)
						}
						out.ModelIssued[s.Owner].Add(out.ModelIssued[s.Owner], amt)
					}
				}
			} else {
				d := ws.Delegatees[a]
				if d == nil {
					continue
				}
				signedH := h - 1
				markNotSigned(d, signedH)
				s0 := signedH - P.SignedBlocksWindow
				if s0 < 0 {
					s0 = 0
				}
				missed := int64(countInWindow(d, s0, signedH))
				if P.SignedBlocksWindow-missed < P.MinSignedBlocks {
					for _, s := range d.Stakes {
						s.Refund = h + P.LazyRewardBlocks
						ws.Frozen[s.TxHash+"|"+s.Owner] = s
					}
					delete(ws.Delegatees, a)
					out.Jailed = append(out.Jailed, a)
				}
			}
		}
		// the implementation reports the issued sum in a 'reward' event
		if res != nil && res.Begin != nil {
			found := false
			for _, e := range res.Begin.Events {
				if e.Type == "reward" {
					for _, at := range e.Attributes {
						if string(at.Key) == "issued" {
							found = true
							if string(at.Value) != issued.String() && h >= 5 {
								issue("C13", "reward-event-mismatch", fmt.Sprintf("reward event issued=%s, rule gives %s", at.Value, issued))
							}
						}
					}
				}
			}
			_ = found
		}
	}

	// ---- DeliverTx -------------------------------------------------------------------
	lastVals := m.lastValidators(h)
	price := bigDec(P.GasPrice)
	sumFee := new(big.Int)
	if m.Ref != nil {
		m.Ref.BeginBlock(h, b.Time, b.Proposer)
	}
	for i, ti := range txs {
		var r *abci.ResponseDeliverTx
		if res != nil && i < len(res.Txs) {
			r = res.Txs[i]
		}
		if r == nil {
			continue
		}
		m.applyTx(ws, ti, r, h, &P, price, lastVals, sumFee, out, i)
	}

	// ---- EndBlock: governance ------------------------------------------------------
	var pkeys []string
	for k := range pre.Proposals {
		pkeys = append(pkeys, k)
	}
	sort.Strings(pkeys)
	for _, k := range pkeys {
		cp := pre.Proposals[k] // the committed copy decides
		if cp.End < h {
			delete(ws.Proposals, k)
			fp := cp.clone()
			sort.SliceStable(fp.Options, func(i, j int) bool { return fp.Options[i].Votes > fp.Options[j].Votes })
			if len(fp.Options) > 0 && fp.Options[0].Votes >= fp.Majority {
				fp.Major = &MOption{Option: fp.Options[0].Option, Votes: fp.Options[0].Votes}
				ws.FrozenProps[k] = fp
				out.Frozen++
			}
		}
	}
	var fkeys []string
	for k := range pre.FrozenProps {
		fkeys = append(fkeys, k)
	}
	sort.Strings(fkeys)
	cur := P
	for _, k := range fkeys {
		fp := pre.FrozenProps[k]
		if fp.Applying <= h {
			delete(ws.FrozenProps, k)
			if fp.Major != nil && fp.OptType == optGovParams {
				np, err := mergeParams(&cur, fp.Major.Option)
				if err != nil {
					issue("C09", "unappliable-option", fmt.Sprintf("winning option %q cannot be applied: %v", fp.Major.Option, err))
					continue
				}
				cur = *np
				out.Applied++
			}
		}
	}
	ws.Params = cur

	// ---- EndBlock: fees ------------------------------------------------------------
	if sumFee.Sign() > 0 {
		if len(b.Proposer) > 0 {
			pa := ws.acct(hx(b.Proposer))
			pa.Bal.Add(pa.Bal, sumFee)
		} else {
			out.Burned.Add(out.Burned, sumFee)
		}
	}

	// ---- EndBlock: refunds of matured unbonding stakes ------------------------------
	var zkeys []string
	for k := range pre.Frozen {
		zkeys = append(zkeys, k)
	}
	sort.Strings(zkeys)
	for _, k := range zkeys {
		s := pre.Frozen[k]
		if s.Refund <= h {
			a := ws.acct(s.Owner)
			a.Bal.Add(a.Bal, new(big.Int).Mul(big.NewInt(s.Power), big1e18))
			delete(ws.Frozen, k)
		}
	}

	// balances must stay inside [0, 2^256)
	for k, a := range ws.Accounts {
		if a.Bal.Sign() < 0 || a.Bal.Cmp(two256) >= 0 {
			issue("C02", "balance-out-of-range", fmt.Sprintf("rules drive balance of %s to %s", k, a.Bal))
		}
	}
	out.Expected = ws
	return out
}

func mergeParams(old *DParams, opt string) (*DParams, error) {
	var raw map[string]json.RawMessage
	if err := json.Unmarshal([]byte(opt), &raw); err != nil {
		return nil, err
	}
	np := *old
	getI := func(name string) (int64, bool, error) {
		v, ok := raw[name]
		if !ok {
			return 0, false, nil
		}
		s := strings.Trim(string(v), `"`)
		n, ok2 := new(big.Int).SetString(s, 10)
		if !ok2 || !n.IsInt64() {
			return 0, false, fmt.Errorf("field %s: bad value %s", name, v)
		}
		return n.Int64(), n.Sign() != 0, nil
	}
	getS := func(name string) (string, bool, error) {
		v, ok := raw[name]
		if !ok {
			return "", false, nil
		}
		s := strings.Trim(string(v), `"`)
		if s == "" {
			return "", false, nil
		}
		n, ok2 := new(big.Int).SetString(s, 10)
		if !ok2 || n.Sign() < 0 || n.Cmp(two256) >= 0 {
			return "", false, fmt.Errorf("field %s: bad value %s", name, v)
		}
		return n.String(), n.Sign() != 0, nil
	}
	type ifld struct {
		name string
		dst  *int64
	}
	for _, f := range []ifld{{"version", &np.Version}, {"maxValidatorCnt", &np.MaxValidatorCnt}, {"lazyRewardBlocks", &np.LazyRewardBlocks},
		{"lazyApplyingBlocks", &np.LazyApplyingBlocks}, {"minVotingPeriodBlocks", &np.MinVotingPeriodBlocks}, {"maxVotingPeriodBlocks", &np.MaxVotingPeriodBlocks},
		{"minSelfStakeRatio", &np.MinSelfStakeRatio}, {"maxUpdatableStakeRatio", &np.MaxUpdatableStakeRatio}, {"maxIndividualStakeRatio", &np.MaxIndividualStakeRatio},
		{"slashRatio", &np.SlashRatio}, {"signedBlocksWindow", &np.SignedBlocksWindow}, {"minSignedBlocks", &np.MinSignedBlocks}} {
		v, set, err := getI(f.name)
		if err != nil {
			return nil, err
		}
		if set {
			*f.dst = v
		}
	}
	type ufld struct {
		name string
		dst  *uint64
	}
	for _, f := range []ufld{{"minTrxGas", &np.MinTrxGas}, {"maxTrxGas", &np.MaxTrxGas}, {"maxBlockGas", &np.MaxBlockGas}} {
		v, ok := raw[f.name]
		if !ok {
			continue
		}
		s := strings.Trim(string(v), `"`)
		n, ok2 := new(big.Int).SetString(s, 10)
		if !ok2 || !n.IsUint64() {
			return nil, fmt.Errorf("field %s: bad value %s", f.name, v)
		}
		if n.Sign() != 0 {
			*f.dst = n.Uint64()
		}
	}
	type sfld struct {
		name string
		dst  *string
	}
	for _, f := range []sfld{{"minValidatorStake", &np.MinValidatorStake}, {"minDelegatorStake", &np.MinDelegatorStake},
		{"rewardPerPower", &np.RewardPerPower}, {"gasPrice", &np.GasPrice}} {
		v, set, err := getS(f.name)
		if err != nil {
			return nil, err
		}
		if set {
			*f.dst = v
		}
	}
	return &np, nil
}

func (m *Model) applyTx(ws *MState, ti *TxInfo, r *abci.ResponseDeliverTx, h int64, P *DParams, price *big.Int,
	lastVals []*MDeleg, sumFee *big.Int, out *stepOut, idx int) {
	issue := func(prop, sig, detail string) {
		out.Issues = append(out.Issues, Issue{prop, sig, fmt.Sprintf("block %d tx %d (%s): %s", h, idx, ti.Label, detail)})
	}
	tx := ti.Tx
	if tx == nil {
		if r.Code == 0 {
			issue("C09", "junk-accepted", "undecodable bytes returned code 0")
		}
		return
	}
	isEVM := tx.Type == rctypes.TRX_CONTRACT
	if tx.Type == rctypes.TRX_TRANSFER && len(tx.To) == 20 {
		if ra := ws.Accounts[hx(tx.To)]; ra != nil && ra.Code != "" {
			isEVM = true
		}
		if m.Ref != nil && m.Ref.HasCode(hx(tx.To)) {
			isEVM = true // contracts created by contracts are contracts too
		}
		if to := hx(tx.To); m.Ref != nil && !m.Ref.HasCode(to) && (isEVM || m.Ref.Contracts[to]) {
			// a former contract address (self-destructed, or a deployment that left no code): no contract lives there, so
			// "plain transfer to a contract address" (C17) and "native transaction" (C16) are both defensible readings.
			// The route the node took is taken over: a success that used its whole gas limit is the native route.
			if r.Code != 0 {
				return // failed either way: no effect, no fee
			}
			isEVM = !(uint64(r.GasUsed) == tx.Gas && uint64(r.GasWanted) == tx.Gas)
			out.FormerContractTransfers++
		}
	}
	if isEVM {
		m.applyEVMTx(ws, ti, r, h, P, price, sumFee, out, idx)
		return
	}
	if r.Code != 0 {
		return // no effect, no fee
	}
	// ---- preconditions of a success ---------------------------------------------------
	if len(tx.From) != 20 || len(tx.To) != 20 {
		issue("C09", "bad-address-accepted", "transaction with malformed address succeeded")
		return
	}
	from := hx(tx.From)
	snd := ws.Accounts[from]
	if snd == nil {
		issue("C02", "unknown-sender-accepted", "sender has no account")
		snd = ws.acct(from)
	}
	if !ti.SigOK {
		issue("C03", "bad-signature-accepted", "transaction whose signature does not verify independently succeeded")
	}
	if tx.Nonce != snd.Nonce {
		issue("C04", "nonce-mismatch-accepted", fmt.Sprintf("tx nonce %d, sender nonce %d", tx.Nonce, snd.Nonce))
	}
	gp := tx.GasPrice.ToBig()
	if gp.Cmp(price) != 0 {
		issue("C16", "wrong-gasprice-accepted", fmt.Sprintf("tx price %s, active price %s", gp, price))
	}
	fee := new(big.Int).Mul(new(big.Int).SetUint64(tx.Gas), gp)
	minFee := new(big.Int).Mul(new(big.Int).SetUint64(P.MinTrxGas), price)
	if fee.Cmp(minFee) < 0 {
		issue("C16", "fee-below-minimum-accepted", fmt.Sprintf("fee %s < minimum %s", fee, minFee))
	}
	if uint64(r.GasUsed) != tx.Gas || uint64(r.GasWanted) != tx.Gas {
		issue("C16", "native-gas-fields", fmt.Sprintf("gas=%d GasWanted=%d GasUsed=%d", tx.Gas, r.GasWanted, r.GasUsed))
	}
	amt := tx.Amount.ToBig()
	need := new(big.Int).Add(amt, fee)
	if snd.Bal.Cmp(need) < 0 {
		issue("C02", "insufficient-funds-accepted", fmt.Sprintf("balance %s < amount+fee %s", snd.Bal, need))
	}

	switch tx.Type {
	case rctypes.TRX_TRANSFER:
		rcv := ws.acct(hx(tx.To))
		snd.Bal.Sub(snd.Bal, amt)
		rcv.Bal.Add(rcv.Bal, amt)
	case rctypes.TRX_SETDOC:
		pl, _ := tx.Payload.(*rctypes.TrxPayloadSetDoc)
		if pl != nil {
			snd.Name, snd.DocURL = pl.Name, pl.URL
		}
	case rctypes.TRX_STAKING:
		q, rem := new(big.Int).DivMod(amt, big1e18, new(big.Int))
		if q.Sign() <= 0 || rem.Sign() != 0 || !q.IsInt64() {
			issue("C11", "bad-stake-amount-accepted", fmt.Sprintf("staking amount %s is not a positive multiple of 10^18", amt))
		}
		power := q.Int64()
		to := hx(tx.To)
		d := ws.Delegatees[to]
		if d == nil {
			if to != from {
				issue("C11", "delegation-to-nobody-accepted", "delegation to an address that is not a delegatee")
				break
			}
			d = &MDeleg{Addr: to, PubKey: hx(ti.Pub)}
			ws.Delegatees[to] = d
		}
		snd.Bal.Sub(snd.Bal, amt)
		d.Stakes = append(d.Stakes, &MStake{Owner: from, To: to, TxHash: ti.Hash, Start: h + 1, Power: power})
		d.recompute()
	case rctypes.TRX_UNSTAKING:
		pl, _ := tx.Payload.(*rctypes.TrxPayloadUnstaking)
		to := hx(tx.To)
		d := ws.Delegatees[to]
		if d == nil || pl == nil {
			issue("C12", "unstake-unknown-delegatee-accepted", "unstaking from an address that is not a delegatee")
			break
		}
		hsh := hx(pl.TxHash)
		var st *MStake
		si := -1
		for i, s := range d.Stakes {
			if s.TxHash == hsh {
				st, si = s, i
				break
			}
		}
		if st == nil {
			issue("C12", "unstake-unknown-stake-accepted", "unstaking a stake that is not bonded to the named delegatee")
			break
		}
		if st.Owner != from {
			issue("C12", "unstake-by-non-owner-accepted", fmt.Sprintf("stake of %s released by %s", st.Owner, from))
		}
		d.Stakes = append(d.Stakes[:si:si], d.Stakes[si+1:]...)
		d.recompute()
		st.Refund = h + P.LazyRewardBlocks
		ws.Frozen[st.TxHash+"|"+st.Owner] = st
		if d.Self == 0 {
			for _, s := range d.Stakes {
				s.Refund = h + P.LazyRewardBlocks
				ws.Frozen[s.TxHash+"|"+s.Owner] = s
			}
			d.Stakes = nil
			d.recompute()
		}
		if d.Total == 0 {
			delete(ws.Delegatees, to)
		}
	case rctypes.TRX_WITHDRAW:
		pl, _ := tx.Payload.(*rctypes.TrxPayloadWithdraw)
		if pl == nil {
			break
		}
		req := pl.ReqAmt.ToBig()
		rw := ws.Rewards[from]
		if rw == nil {
			if req.Sign() != 0 {
				issue("C13", "withdraw-without-reward-accepted", "withdrawal by an account that never earned a reward")
			}
			rw = m.rewardRec(ws, from) // a withdrawal of nothing from nothing is within "only up to that amount"
		}
		if req.Cmp(rw.Cumulated) > 0 {
			// warm-up blocks: the issuance of this block is only known up to the admissible range (see Step)
			lim := new(big.Int).Set(rw.Cumulated)
			if rg, ok := out.RewardRange[from]; ok {
				lim.Add(lim, rg[1])
				if mi := out.ModelIssued[from]; mi != nil {
					lim.Sub(lim, mi)
				}
			}
			if req.Cmp(lim) > 0 {
				issue("C13", "excess-withdraw-accepted", fmt.Sprintf("request %s > withdrawable %s", req, lim))
			}
		}
		if amt.Sign() != 0 {
			issue("C13", "withdraw-with-amount-accepted", "withdraw transaction carrying an amount succeeded")
		}
		if rw.Height < h {
			rw.Withdrawn = new(big.Int).Set(req)
			rw.Height = h
		} else {
			rw.Withdrawn.Add(rw.Withdrawn, req)
		}
		rw.Cumulated.Sub(rw.Cumulated, req)
		snd.Bal.Add(snd.Bal, req)
		out.Minted.Add(out.Minted, req)
	case rctypes.TRX_PROPOSAL:
		pl, _ := tx.Payload.(*rctypes.TrxPayloadProposal)
		if pl == nil {
			break
		}
		isVal := false
		for _, v := range lastVals {
			if v.Addr == from {
				isVal = true
			}
		}
		if !isVal {
			// accept any plausible notion of "current validator"
			for _, hh := range []int64{h, h + 1} {
				for _, v := range m.Sim.SetAt(hh) {
					if hx(v.Addr) == from {
						isVal = true
					}
				}
			}
		}
		if !isVal {
			issue("C15", "proposal-by-non-validator-accepted", "proposal from an address that is not a current validator")
		}
		if pl.StartVotingHeight <= h {
			issue("C15", "proposal-start-in-past-accepted", fmt.Sprintf("start %d <= height %d", pl.StartVotingHeight, h))
		}
		if pl.VotingPeriodBlocks < P.MinVotingPeriodBlocks || pl.VotingPeriodBlocks > P.MaxVotingPeriodBlocks {
			issue("C15", "proposal-bad-period-accepted", fmt.Sprintf("period %d outside [%d,%d]", pl.VotingPeriodBlocks, P.MinVotingPeriodBlocks, P.MaxVotingPeriodBlocks))
		}
		end := pl.StartVotingHeight + pl.VotingPeriodBlocks
		if pl.ApplyingHeight < end+P.LazyApplyingBlocks {
			issue("C15", "proposal-early-applying-accepted", fmt.Sprintf("applying %d < end %d + delay %d", pl.ApplyingHeight, end, P.LazyApplyingBlocks))
		}
		if len(pl.Options) == 0 {
			issue("C15", "proposal-without-options-accepted", "no options")
		}
		if m.tieAtCut(h) {
			out.Ambiguous[ti.Hash] = true // equal powers across the validator cut: the snapshot may legitimately hold either candidate
		}
		np := &MProposal{TxHash: ti.Hash, Start: pl.StartVotingHeight, End: end, Applying: pl.ApplyingHeight, OptType: pl.OptType, Voters: map[string]*MVoter{}}
		for _, v := range lastVals {
			np.Voters[v.Addr] = &MVoter{Addr: v.Addr, Power: v.Total, Choice: -1}
			np.TotalPower += v.Total
		}
		np.Majority = np.TotalPower * 2 / 3
		for _, o := range pl.Options {
			np.Options = append(np.Options, &MOption{Option: string(o)})
		}
		ws.Proposals[ti.Hash] = np
	case rctypes.TRX_VOTING:
		pl, _ := tx.Payload.(*rctypes.TrxPayloadVoting)
		if pl == nil {
			break
		}
		p := ws.Proposals[hx(pl.TxHash)]
		if p == nil && len(pl.TxHash) > 32 {
			// an over-long reference: the properties do not say which 32 bytes name the proposal. Any reading is
			// accepted as long as the vote is admissible for the proposal it names and is counted there.
			for _, ref := range [][]byte{pl.TxHash[:32], pl.TxHash[len(pl.TxHash)-32:]} {
				if q := ws.Proposals[hx(ref)]; q != nil {
					if p == nil {
						p = q
					}
					if q.Voters[from] != nil && h >= q.Start && h <= q.End && pl.Choice >= 0 && int(pl.Choice) < len(q.Options) {
						p = q
						break
					}
				}
			}
		}
		if p == nil {
			issue("C15", "vote-on-unknown-proposal-accepted", "vote for a proposal that is not open")
			break
		}
		v := p.Voters[from]
		if v == nil {
			issue("C15", "vote-by-outsider-accepted", "vote from an address that is not a recorded voter")
			break
		}
		if h < p.Start || h > p.End {
			issue("C15", "vote-outside-window-accepted", fmt.Sprintf("height %d outside [%d,%d]", h, p.Start, p.End))
		}
		if pl.Choice < 0 || int(pl.Choice) >= len(p.Options) {
			issue("C15", "vote-bad-choice-accepted", fmt.Sprintf("choice %d of %d options", pl.Choice, len(p.Options)))
			break
		}
		if v.Choice >= 0 && int(v.Choice) < len(p.Options) {
			p.Options[v.Choice].Votes -= v.Power
		}
		p.Options[pl.Choice].Votes += v.Power
		v.Choice = pl.Choice
	default:
		issue("C09", "unknown-type-accepted", fmt.Sprintf("type %d succeeded", tx.Type))
	}
	// fee and nonce
	snd.Bal.Sub(snd.Bal, fee)
	snd.Nonce++
	sumFee.Add(sumFee, fee)
}
