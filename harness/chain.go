package main

// Keys, transaction builder, genesis builder, Tendermint-side simulator and block executor.

import (
	"bytes"
	"crypto/ecdsa"
	"crypto/sha256"
	"encoding/binary"
	"fmt"
	tmversion "github.com/tendermint/tendermint/proto/tendermint/version"
	"math/big"
	"sort"
	"time"

	ethcrypto "github.com/ethereum/go-ethereum/crypto"
	"github.com/holiman/uint256"
	rctypes "github.com/rigochain/rigo-go/ctrlers/types"
	"github.com/rigochain/rigo-go/genesis"
	rcrypto "github.com/rigochain/rigo-go/types/crypto"
	abci "github.com/tendermint/tendermint/abci/types"
	tmcrypto "github.com/tendermint/tendermint/crypto"
	tmsecp "github.com/tendermint/tendermint/crypto/secp256k1"
	tmjson "github.com/tendermint/tendermint/libs/json"
	tmproto "github.com/tendermint/tendermint/proto/tendermint/types"
	tmtypes "github.com/tendermint/tendermint/types"
)

// ---- keys ------------------------------------------------------------------------

type Key struct {
	Label string
	Prv   *ecdsa.PrivateKey
	PrvBz []byte
	Pub   []byte // 33-byte compressed
	Addr  []byte // 20 bytes
}

func deriveKey(seed int64, label string) *Key {
	for ctr := 0; ; ctr++ {
		h := sha256.New()
		var b [16]byte
		binary.BigEndian.PutUint64(b[:8], uint64(seed))
		binary.BigEndian.PutUint64(b[8:], uint64(ctr))
		h.Write(b[:])
		h.Write([]byte(label))
		d := h.Sum(nil)
		prv, err := ethcrypto.ToECDSA(d)
		if err != nil {
			continue
		}
		pub := rcrypto.CompressPubkey(&prv.PublicKey)
		return &Key{Label: label, Prv: prv, PrvBz: d, Pub: pub, Addr: rcrypto.Pub2Addr(&prv.PublicKey)}
	}
}

func (k *Key) A() string { return hx(k.Addr) }

// ---- transactions ----------------------------------------------------------------

func u256(v uint64) *uint256.Int { return uint256.NewInt(v) }

func u256b(b *big.Int) *uint256.Int {
	r, over := uint256.FromBig(b)
	if over {
		panic("u256b overflow")
	}
	return r
}

var zeroAddr = make([]byte, 20)

// signTx signs with the repository's own pre-image helper and returns the wire encoding.
func signTx(tx *rctypes.Trx, k *Key, chainID string) []byte {
	pre, xerr := rctypes.PreImageToSignTrxRLP(tx, chainID)
	if xerr != nil {
		panic(xerr)
	}
	sig, err := rcrypto.Sign(pre, k.Prv)
	if err != nil {
		panic(err)
	}
	tx.Sig = sig
	bz, xerr := tx.Encode()
	if xerr != nil {
		panic(xerr)
	}
	return bz
}

func mkTx(typ int32, from []byte, to []byte, nonce, gas uint64, gasPrice, amt *uint256.Int, payload rctypes.ITrxPayload, tm int64) *rctypes.Trx {
	return &rctypes.Trx{
		Version: 1, Time: tm, Nonce: nonce, From: from, To: to, Amount: amt, Gas: gas, GasPrice: gasPrice, Type: typ, Payload: payload,
	}
}

// ---- genesis ---------------------------------------------------------------------

type GenVal struct {
	Key   *Key
	Power int64
}

type GenHolder struct {
	Key     *Key
	Balance *big.Int
}

type GenCfg struct {
	ChainID    string
	Validators []GenVal
	Holders    []GenHolder
	Params     DParams
}

func paramsJSON(p *DParams) []byte {
	s := fmt.Sprintf(`{"version":"%d","maxValidatorCnt":"%d","minValidatorStake":"%s","minDelegatorStake":"%s","rewardPerPower":"%s",`+
		`"lazyRewardBlocks":"%d","lazyApplyingBlocks":"%d","gasPrice":"%s","minTrxGas":"%d","maxTrxGas":"%d","maxBlockGas":"%d",`+
		`"minVotingPeriodBlocks":"%d","maxVotingPeriodBlocks":"%d","minSelfStakeRatio":"%d","maxUpdatableStakeRatio":"%d",`+
		`"maxIndividualStakeRatio":"%d","slashRatio":"%d","signedBlocksWindow":"%d","minSignedBlocks":"%d"}`,
		p.Version, p.MaxValidatorCnt, p.MinValidatorStake, p.MinDelegatorStake, p.RewardPerPower,
		p.LazyRewardBlocks, p.LazyApplyingBlocks, p.GasPrice, p.MinTrxGas, p.MaxTrxGas, p.MaxBlockGas,
		p.MinVotingPeriodBlocks, p.MaxVotingPeriodBlocks, p.MinSelfStakeRatio, p.MaxUpdatableStakeRatio,
		p.MaxIndividualStakeRatio, p.SlashRatio, p.SignedBlocksWindow, p.MinSignedBlocks)
	return []byte(s)
}

func (g *GenCfg) InitChainReq() *abci.RequestInitChain {
	gp := &rctypes.GovParams{}
	if err := tmjson.Unmarshal(paramsJSON(&g.Params), gp); err != nil {
		panic(err)
	}
	st := genesis.GenesisAppState{GovParams: gp}
	for _, h := range g.Holders {
		st.AssetHolders = append(st.AssetHolders, &genesis.GenesisAssetHolder{Address: h.Key.Addr, Balance: u256b(h.Balance)})
	}
	bz, err := tmjson.Marshal(st)
	if err != nil {
		panic(err)
	}
	req := &abci.RequestInitChain{
		Time:          time.Unix(1700000000, 0).UTC(),
		ChainId:       g.ChainID,
		AppStateBytes: bz,
		InitialHeight: 1,
	}
	for _, v := range g.Validators {
		req.Validators = append(req.Validators, abci.UpdateValidator(v.Key.Pub, v.Power, "secp256k1"))
	}
	return req
}

// ---- block specification ---------------------------------------------------------

type VoteSpec struct {
	Addr   []byte
	Power  int64
	Signed bool
}

type EvSpec struct {
	Addr   []byte
	Power  int64
	Height int64
}

type BlockSpec struct {
	Height   int64
	Time     int64 // unix seconds
	Proposer []byte
	Votes    []VoteSpec
	Evidence []EvSpec
	Txs      [][]byte
}

func (b *BlockSpec) BeginReq(chainID string, lastAppHash []byte) *abci.RequestBeginBlock {
	req := &abci.RequestBeginBlock{
		Hash: sha256sum([]byte(fmt.Sprintf("blk-%d", b.Height))),
		Header: tmproto.Header{
			ChainID:         chainID,
			Height:          b.Height,
			Time:            time.Unix(b.Time, 0).UTC(),
			ProposerAddress: b.Proposer,
			AppHash:         lastAppHash,
			// a complete header, as the consensus engine sends it (the values are arbitrary but fixed per height)
			Version:            tmversion.Consensus{Block: 11, App: 1},
			DataHash:           sha256sum([]byte(fmt.Sprintf("data-%d", b.Height))),
			ValidatorsHash:     sha256sum([]byte(fmt.Sprintf("vals-%d", b.Height))),
			NextValidatorsHash: sha256sum([]byte(fmt.Sprintf("vals-%d", b.Height+1))),
			ConsensusHash:      sha256sum([]byte("consensus-params")),
			LastResultsHash:    sha256sum([]byte(fmt.Sprintf("results-%d", b.Height-1))),
			EvidenceHash:       sha256sum([]byte(fmt.Sprintf("evidence-%d", b.Height))),
			LastCommitHash:     sha256sum([]byte(fmt.Sprintf("commit-%d", b.Height-1))),
		},
	}
	if b.Height > 1 {
		req.Header.LastBlockId = tmproto.BlockID{
			Hash:          sha256sum([]byte(fmt.Sprintf("blk-%d", b.Height-1))),
			PartSetHeader: tmproto.PartSetHeader{Total: 1, Hash: sha256sum([]byte(fmt.Sprintf("parts-%d", b.Height-1)))},
		}
	}
	for _, v := range b.Votes {
		req.LastCommitInfo.Votes = append(req.LastCommitInfo.Votes, abci.VoteInfo{
			Validator: abci.Validator{Address: v.Addr, Power: v.Power}, SignedLastBlock: v.Signed,
		})
	}
	for _, e := range b.Evidence {
		req.ByzantineValidators = append(req.ByzantineValidators, abci.Evidence{
			Type: abci.EvidenceType_DUPLICATE_VOTE, Validator: abci.Validator{Address: e.Addr, Power: e.Power},
			Height: e.Height, Time: time.Unix(b.Time-1, 0).UTC(), TotalVotingPower: 0,
		})
	}
	return req
}

func sha256sum(b []byte) []byte {
	h := sha256.Sum256(b)
	return h[:]
}

type BlockResult struct {
	Begin  *abci.ResponseBeginBlock
	Txs    []*abci.ResponseDeliverTx
	End    *abci.ResponseEndBlock
	Commit *abci.ResponseCommit
}

// execBlock runs one block on one replica.
func execBlock(r *Replica, chainID string, b *BlockSpec, lastAppHash []byte) (*BlockResult, error) {
	return execBlockMid(r, chainID, b, lastAppHash, nil)
}

// execBlockMid runs one block; mid (if not nil) is called after BeginBlock and after every DeliverTx
// (k = number of transactions delivered so far) - the place where a node serves mempool checks and queries.
func execBlockMid(r *Replica, chainID string, b *BlockSpec, lastAppHash []byte, mid func(k int) error) (*BlockResult, error) {
	res := &BlockResult{}
	var err error
	if res.Begin, err = r.BeginBlock(b.BeginReq(chainID, lastAppHash)); err != nil {
		return nil, err
	}
	if mid != nil {
		if err := mid(0); err != nil {
			return nil, err
		}
	}
	for k, tx := range b.Txs {
		dr, err := r.DeliverTx(tx)
		if err != nil {
			return nil, err
		}
		res.Txs = append(res.Txs, dr)
		if mid != nil {
			if err := mid(k + 1); err != nil {
				return nil, err
			}
		}
	}
	if res.End, err = r.EndBlock(b.Height); err != nil {
		return nil, err
	}
	if res.Commit, err = r.Commit(); err != nil {
		return nil, err
	}
	return res, nil
}

// consensusView renders the fields of a block result that consensus depends on (C01 observables).
func (br *BlockResult) consensusView() string {
	var sb bytes.Buffer
	for i, t := range br.Txs {
		fmt.Fprintf(&sb, "tx%d code=%d data=%x gw=%d gu=%d\n", i, t.Code, t.Data, t.GasWanted, t.GasUsed)
	}
	for _, u := range br.End.ValidatorUpdates {
		fmt.Fprintf(&sb, "vu %x %d\n", pb(&u.PubKey), u.Power)
	}
	fmt.Fprintf(&sb, "apphash %x\n", br.Commit.Data)
	return sb.String()
}

func eventsView(evs []abci.Event) string {
	var sb bytes.Buffer
	for _, e := range evs {
		fmt.Fprintf(&sb, "%s{", e.Type)
		for _, a := range e.Attributes {
			fmt.Fprintf(&sb, "%s=%x,", a.Key, a.Value)
		}
		sb.WriteString("}")
	}
	return sb.String()
}

// ---- Tendermint-side simulator -----------------------------------------------------

type simVal struct {
	Pub   []byte
	Addr  []byte
	Power int64
}

// TMSim keeps the validator sets exactly as Tendermint would: the updates returned at
// EndBlock(h) take effect for block h+2.
type TMSim struct {
	sets map[int64]*tmtypes.ValidatorSet // validator set in force at height h
	top  int64                           // highest height for which sets[h] is known
}

func pubFromBytes(pub []byte) tmcrypto.PubKey { return tmsecp.PubKey(pub) }

func NewTMSim(g *GenCfg) (*TMSim, error) {
	var vals []*tmtypes.Validator
	for _, v := range g.Validators {
		vals = append(vals, tmtypes.NewValidator(pubFromBytes(v.Key.Pub), v.Power))
	}
	vs := tmtypes.NewValidatorSet(vals)
	s := &TMSim{sets: map[int64]*tmtypes.ValidatorSet{}}
	s.sets[1] = vs
	s.sets[2] = vs.Copy()
	s.top = 2
	return s, nil
}

// ApplyUpdates folds the updates returned by EndBlock(h); an error is what would halt Tendermint.
func (s *TMSim) ApplyUpdates(h int64, ups []abci.ValidatorUpdate) error {
	if h+1 != s.top {
		return fmt.Errorf("tmsim: updates for height %d applied out of order (top=%d)", h, s.top)
	}
	for _, u := range ups {
		if u.Power < 0 {
			return fmt.Errorf("validator update with negative power %d", u.Power)
		}
		if u.PubKey.GetSecp256K1() == nil {
			return fmt.Errorf("validator update with unsupported key type")
		}
	}
	tmUps, err := tmtypes.PB2TM.ValidatorUpdates(ups)
	if err != nil {
		return err
	}
	nvs := s.sets[s.top].Copy()
	if len(tmUps) > 0 {
		if err := nvs.UpdateWithChangeSet(tmUps); err != nil {
			return err
		}
	}
	s.top++
	s.sets[s.top] = nvs
	return nil
}

func (s *TMSim) SetAt(h int64) []simVal {
	vs := s.sets[h]
	if vs == nil {
		return nil
	}
	var out []simVal
	for _, v := range vs.Validators {
		out = append(out, simVal{Pub: v.PubKey.Bytes(), Addr: v.Address, Power: v.VotingPower})
	}
	sort.Slice(out, func(i, j int) bool { return bytes.Compare(out[i].Addr, out[j].Addr) < 0 })
	return out
}

// Truncate forgets sets above height h+1... used when a history is rewound (crash replay).
func (s *TMSim) Clone() *TMSim {
	n := &TMSim{sets: map[int64]*tmtypes.ValidatorSet{}, top: s.top}
	for h, v := range s.sets {
		n.sets[h] = v.Copy()
	}
	return n
}
