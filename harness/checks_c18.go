package main

// C18: the versioned ledger store behaves as an overlayed map with immutable history.
// In-process: a real LevelDB-backed FinalityLedger is driven with generated operation
// sequences; every return value is compared with a small map model.

import (
	"bytes"
	"fmt"
	"math/rand"
	"os"
	"sort"
	"strings"

	"github.com/rigochain/rigo-go/ledger"
	"github.com/rigochain/rigo-go/types/xerrors"
)

type kvItem struct {
	K ledger.LedgerKey
	V string
}

func (i *kvItem) Key() ledger.LedgerKey { return i.K }
func (i *kvItem) Encode() ([]byte, xerrors.XError) {
	return append(append([]byte{}, i.K[:]...), []byte(i.V)...), nil
}
func (i *kvItem) Decode(b []byte) xerrors.XError {
	if len(b) < 32 {
		return xerrors.NewOrdinary("short item")
	}
	copy(i.K[:], b[:32])
	i.V = string(b[32:])
	return nil
}

type ovEntry struct {
	val     *string
	deleted bool
	dels    int  // outstanding deletes (cancel-delete is only exercised when this is 1)
	tainted bool // mempool overlay only: consensus deleted this key in the current interval
}

type ledgerModel struct {
	committed map[ledger.LedgerKey]string
	history   []map[ledger.LedgerKey]string // history[v-1] = state at version v
	cons      map[ledger.LedgerKey]*ovEntry
	memp      map[ledger.LedgerKey]*ovEntry
}

func newLedgerModel() *ledgerModel {
	return &ledgerModel{committed: map[ledger.LedgerKey]string{}, cons: map[ledger.LedgerKey]*ovEntry{}, memp: map[ledger.LedgerKey]*ovEntry{}}
}

func (m *ledgerModel) ent(ov map[ledger.LedgerKey]*ovEntry, k ledger.LedgerKey) *ovEntry {
	e := ov[k]
	if e == nil {
		e = &ovEntry{}
		ov[k] = e
	}
	return e
}

func (m *ledgerModel) get(ov map[ledger.LedgerKey]*ovEntry, k ledger.LedgerKey) (string, bool) {
	if e := ov[k]; e != nil {
		if e.val != nil {
			return *e.val, true
		}
		if e.deleted {
			return "", false
		}
	}
	v, ok := m.committed[k]
	return v, ok
}

func cloneMap(m map[ledger.LedgerKey]string) map[ledger.LedgerKey]string {
	n := make(map[ledger.LedgerKey]string, len(m))
	for k, v := range m {
		n[k] = v
	}
	return n
}

func mapStr(m map[ledger.LedgerKey]string) string {
	var ks []ledger.LedgerKey
	for k := range m {
		ks = append(ks, k)
	}
	sort.Slice(ks, func(i, j int) bool { return bytes.Compare(ks[i][:], ks[j][:]) < 0 })
	var sb strings.Builder
	for _, k := range ks {
		fmt.Fprintf(&sb, "%x=%s;", k[:2], m[k])
	}
	return sb.String()
}

func checkC18(c *Ctx) {
	c.rule = "generated operation sequences (SetFinality/GetFinality/DelFinality/CancelSetFinality/CancelDelFinality, Set/Get/Del/CancelSet/CancelDel, Read, IterateReadAllItems, Commit, ImmutableLedgerAt(v).Read/Iterate for every earlier version, close+reopen) over 2-6 keys on two real LevelDB-backed FinalityLedger instances; every return value is compared with a map model (committed map + consensus overlay + mempool overlay with tombstones + version history) and the two instances must return equal root hashes and versions; distinct = distinct operation sequences that contained at least one commit"
	c.assumptions = []string{"each ledger is driven by one goroutine at a time, as in the node (application calls never overlap in the node)", "CancelDel is only exercised while exactly one delete of the key is outstanding", "after a consensus delete of a key the mempool overlay's view of that key is not asserted until the next commit (the implementation propagates the delete; the property does not say)"}
	n := c.N(300, 12000)
	c.Parallel(n, 0, func(i int) {
		rng := c.Rng("c18", i)
		c.ledgerSequence(i, rng)
	})
	// process-lifetime sweep: far more distinct keys than any plausible cache bound are read within one commit
	// interval while writes are pending; the pending writes must stay visible and must be what is committed
	sweeps := []int{80000}
	if !c.Quick() {
		sweeps = []int{3000, 80000, 150000, 300000}
	}
	c.Parallel(len(sweeps), 4, func(j int) { c.ledgerCacheSweep(900000+j, sweeps[j], c.Rng("c18sweep", j)) })
	c.Require("commits", "historical-reads", "reopens", "recreate-after-delete", "cache-sweep-reads")
}

func (c *Ctx) ledgerCacheSweep(i, nKeys int, rng *rand.Rand) {
	dir := c.DirI(i, fmt.Sprintf("c18-sweep-%d", i))
	defer os.RemoveAll(dir)
	mk := func() *kvItem { return &kvItem{} }
	l, xerr := ledger.NewFinalityLedger[*kvItem]("c18", dir, 128, mk)
	if xerr != nil {
		c.Inconclusive(xerr.Error())
		return
	}
	defer func() { _ = l.Close() }()
	bad := func(sig, msg string) {
		c.Violation(i, "ledger-model-mismatch:"+sig, fmt.Sprintf("cache sweep over %d keys: %s", nKeys, msg), map[string]interface{}{"keys": nKeys})
	}
	defer func() {
		if r := recover(); r != nil {
			bad("panic", fmt.Sprint("panic: ", r))
		}
	}()
	key := func(n int) ledger.LedgerKey {
		var k ledger.LedgerKey
		copy(k[:], sha256sum([]byte(fmt.Sprint("sweep", i, n))))
		return k
	}
	// population: committed in slices
	for n := 0; n < nKeys; n++ {
		_ = l.SetFinality(&kvItem{K: key(n), V: fmt.Sprintf("p%d", n)})
		if n%20000 == 19999 || n == nKeys-1 {
			if _, _, xerr := l.Commit(); xerr != nil {
				bad("commit", xerr.Error())
				return
			}
			c.Count("commits", 1)
		}
	}
	// a fresh process view of the store: caches start empty
	_ = l.Close()
	if l, xerr = ledger.NewFinalityLedger[*kvItem]("c18", dir, 128, mk); xerr != nil {
		c.Inconclusive(xerr.Error())
		return
	}
	c.Count("reopens", 1)
	for round := 0; round < 2; round++ {
		// pending writes of this interval: changed keys, a new key, a deleted key, a mempool-overlay write
		pend := map[int]string{}
		for _, n := range []int{0, 1, nKeys / 2, nKeys - 1} {
			v := fmt.Sprintf("w%d-%d", round, n)
			if it, xerr := l.GetFinality(key(n)); xerr != nil {
				bad("sweep-get", fmt.Sprintf("GetFinality(k%d): %v", n, xerr))
				return
			} else {
				it.V = v // the usual pattern: look up, modify, set
				_ = l.SetFinality(it)
			}
			pend[n] = v
		}
		newK := key(nKeys + 1 + round)
		_ = l.SetFinality(&kvItem{K: newK, V: "fresh"})
		delN := 2 + round
		if _, xerr := l.DelFinality(key(delN)); xerr != nil {
			bad("sweep-del", xerr.Error())
			return
		}
		_ = l.Set(&kvItem{K: key(7), V: "mempool-only"})
		verify := func(at int) bool {
			for n, v := range pend {
				it, xerr := l.GetFinality(key(n))
				if xerr != nil || it.V != v {
					got := "not found"
					if xerr == nil {
						got = it.V
					}
					bad("pending-write-lost-after-many-reads", fmt.Sprintf("after reading %d other keys in the same commit interval GetFinality(k%d) returns %s, pending write is %s", at, n, got, v))
					return false
				}
			}
			if it, xerr := l.GetFinality(newK); xerr != nil || it.V != "fresh" {
				bad("pending-write-lost-after-many-reads", fmt.Sprintf("after reading %d other keys the key created in this interval is gone", at))
				return false
			}
			if _, xerr := l.GetFinality(key(delN)); xerr == nil {
				bad("pending-delete-lost-after-many-reads", fmt.Sprintf("after reading %d other keys the key deleted in this interval is back", at))
				return false
			}
			if it, xerr := l.Get(key(7)); xerr != nil || it.V != "mempool-only" {
				bad("mempool-write-lost-after-many-reads", fmt.Sprintf("after reading %d other keys the mempool overlay lost its pending write", at))
				return false
			}
			return true
		}
		step := 1
		for n := 10; n < nKeys; n += step {
			it, xerr := l.GetFinality(key(n))
			if _, isPend := pend[n]; !isPend && (xerr != nil || it.V != fmt.Sprintf("p%d", n)) && !(round == 1 && n == 2) {
				bad("sweep-get", fmt.Sprintf("GetFinality(k%d) = %v, %v", n, it, xerr))
				return
			}
			if n%3 == 0 {
				_, _ = l.Get(key(n)) // the mempool overlay's cache fills as well
			}
			c.Count("cache-sweep-reads", 1)
			if n%997 == 0 && !verify(n) {
				return
			}
		}
		if !verify(nKeys) {
			return
		}
		if _, _, xerr := l.Commit(); xerr != nil {
			bad("commit", xerr.Error())
			return
		}
		c.Count("commits", 1)
		// what was committed is the pending state
		for n, v := range pend {
			if it, xerr := l.Read(key(n)); xerr != nil || it.V != v {
				bad("commit-lost-pending-write", fmt.Sprintf("after the commit Read(k%d) = %v, %v; written %s", n, it, xerr, v))
				return
			}
		}
		if _, xerr := l.Read(key(delN)); xerr == nil {
			bad("commit-lost-pending-delete", "the key deleted in the interval is in the committed version")
			return
		}
		if it, xerr := l.Read(key(7)); xerr != nil || it.V == "mempool-only" {
			bad("mempool-write-committed", "a mempool-overlay write reached the committed version")
			return
		}
		c.Eval(1)
	}
	c.Distinct(fmt.Sprintf("sweep/%d", nKeys))
	c.Count("cache-sweeps", 1)
}

func (c *Ctx) ledgerSequence(i int, rng *rand.Rand) {
	dirA := c.DirI(i, fmt.Sprintf("c18-%d-a", i))
	dirB := c.DirI(i, fmt.Sprintf("c18-%d-b", i))
	defer os.RemoveAll(dirA)
	defer os.RemoveAll(dirB)
	mk := func() *kvItem { return &kvItem{} }
	open := func(dir string) *ledger.FinalityLedger[*kvItem] {
		l, xerr := ledger.NewFinalityLedger[*kvItem]("c18", dir, 16, mk)
		if xerr != nil {
			panic(xerr)
		}
		return l
	}
	A, B := open(dirA), open(dirB)
	m := newLedgerModel()
	nk := 2 + rng.Intn(5)
	wide := (c.Quick() && i%97 == 5) || (!c.Quick() && i%197 == 5) // a large key population in one process lifetime (long-lived caches)
	if wide {
		nk = 17000 + rng.Intn(4000)
	}
	keys := make([]ledger.LedgerKey, nk)
	for k := range keys {
		rng.Read(keys[k][:])
	}
	nops := 200 + rng.Intn(c.N(400, 1800))
	if wide {
		nops = 4 * nk
		c.Count("wide-key-population-sequences", 1)
	}
	var trace []string
	seq := 0
	bad := func(sig, msg string) {
		t := trace
		if len(t) > 40 {
			t = t[len(t)-40:]
		}
		c.Violation(i, "ledger-model-mismatch:"+sig, fmt.Sprintf("sequence %d: %s\nlast operations: %s", i, msg, strings.Join(t, " ")), map[string]interface{}{"ops": trace})
	}
	defer func() {
		if r := recover(); r != nil {
			bad("panic", fmt.Sprint("panic: ", r))
		}
		_ = A.Close()
		_ = B.Close()
	}()
	commits := 0
	kname := func(k ledger.LedgerKey) string { return fmt.Sprintf("k%x", k[:2]) }
	for op := 0; op < nops; op++ {
		k := keys[rng.Intn(nk)]
		if wide && rng.Intn(2) == 0 {
			k = keys[rng.Intn(5)]
		}
		c.Eval(1)
		r := rng.Intn(100)
		if wide && op < nk {
			// population phase: every key is written once through the consensus overlay (commit every 2500 writes)
			k = keys[op]
			r = 0
			if op%2500 == 2499 {
				r = 85
			}
		}
		switch {
		case r < 14: // SetFinality
			seq++
			v := fmt.Sprintf("v%d", seq)
			trace = append(trace, "SetF("+kname(k)+","+v+")")
			_ = A.SetFinality(&kvItem{K: k, V: v})
			_ = B.SetFinality(&kvItem{K: k, V: v})
			e := m.ent(m.cons, k)
			if e.deleted {
				c.Count("recreate-after-delete", 1)
			}
			e.val = &v
		case r < 28: // GetFinality
			trace = append(trace, "GetF("+kname(k)+")")
			it, xerr := A.GetFinality(k)
			want, ok := m.get(m.cons, k)
			if ok != (xerr == nil) || (ok && it.V != want) {
				got := "not found"
				if xerr == nil {
					got = it.V
				}
				sig := "consensus-get"
				if e := m.cons[k]; e != nil && e.deleted && e.val != nil {
					sig = "get-after-del-set"
				}
				bad(sig, fmt.Sprintf("GetFinality(%s) returned %s, the map model says %q (present=%v)", kname(k), got, want, ok))
				return
			}
		case r < 36: // DelFinality
			trace = append(trace, "DelF("+kname(k)+")")
			it, xerr := A.DelFinality(k)
			_, _ = B.DelFinality(k)
			want, ok := m.get(m.cons, k)
			if ok != (xerr == nil) || (ok && it.V != want) {
				bad("consensus-del", fmt.Sprintf("DelFinality(%s) returned err=%v, the map model says present=%v value=%q", kname(k), xerr, ok, want))
				return
			}
			if ok {
				e := m.ent(m.cons, k)
				e.val, e.deleted = nil, true
				e.dels++
			}
			// the implementation also drops the key from the mempool overlay (whether or not the consensus
			// delete succeeds): the mempool view of this key is not asserted until it is written again or committed
			me := m.ent(m.memp, k)
			me.tainted, me.val = true, nil
		case r < 40: // CancelSetFinality
			trace = append(trace, "CancelSetF("+kname(k)+")")
			_ = A.CancelSetFinality(k)
			_ = B.CancelSetFinality(k)
			if e := m.cons[k]; e != nil {
				e.val = nil
			}
		case r < 43: // CancelDelFinality
			if e := m.cons[k]; e != nil && e.dels == 1 {
				trace = append(trace, "CancelDelF("+kname(k)+")")
				_ = A.CancelDelFinality(k)
				_ = B.CancelDelFinality(k)
				e.deleted, e.dels = false, 0
			}
		case r < 50: // Set (mempool overlay)
			seq++
			v := fmt.Sprintf("m%d", seq)
			trace = append(trace, "Set("+kname(k)+","+v+")")
			_ = A.Set(&kvItem{K: k, V: v})
			_ = B.Set(&kvItem{K: k, V: v})
			e := m.ent(m.memp, k)
			e.val = &v
		case r < 60: // Get (mempool overlay)
			trace = append(trace, "Get("+kname(k)+")")
			it, xerr := A.Get(k)
			e := m.memp[k]
			if e != nil && e.tainted && e.val == nil {
				break // not asserted, see assumptions
			}
			want, ok := m.get(m.memp, k)
			if ok != (xerr == nil) || (ok && it.V != want) {
				got := "not found"
				if xerr == nil {
					got = it.V
				}
				bad("mempool-get", fmt.Sprintf("Get(%s) returned %s, the map model says %q (present=%v)", kname(k), got, want, ok))
				return
			}
			// consensus reads never see mempool writes
			it2, xerr2 := A.GetFinality(k)
			w2, ok2 := m.get(m.cons, k)
			if ok2 != (xerr2 == nil) || (ok2 && it2.V != w2) {
				bad("mempool-leaks-into-consensus", fmt.Sprintf("GetFinality(%s) after mempool activity disagrees with the model (%q, present=%v)", kname(k), w2, ok2))
				return
			}
		case r < 64: // Del (mempool overlay)
			trace = append(trace, "Del("+kname(k)+")")
			e := m.memp[k]
			tainted := e != nil && e.tainted
			_, xerr := A.Del(k)
			_, _ = B.Del(k)
			_, ok := m.get(m.memp, k)
			if tainted {
				ok = xerr == nil
			} else if ok != (xerr == nil) {
				bad("mempool-del", fmt.Sprintf("Del(%s) returned err=%v, the map model says present=%v", kname(k), xerr, ok))
				return
			}
			if ok {
				e := m.ent(m.memp, k)
				e.val, e.deleted = nil, true
				e.dels++
			}
		case r < 66: // CancelSet
			trace = append(trace, "CancelSet("+kname(k)+")")
			_ = A.CancelSet(k)
			_ = B.CancelSet(k)
			if e := m.memp[k]; e != nil {
				e.val = nil
			}
		case r < 68: // CancelDel
			if e := m.memp[k]; e != nil && e.dels == 1 && !e.tainted {
				trace = append(trace, "CancelDel("+kname(k)+")")
				_ = A.CancelDel(k)
				_ = B.CancelDel(k)
				e.deleted, e.dels = false, 0
			}
		case r < 74: // Read: committed value only
			trace = append(trace, "Read("+kname(k)+")")
			it, xerr := A.Read(k)
			want, ok := m.committed[k]
			if ok != (xerr == nil) || (ok && it.V != want) {
				bad("read", fmt.Sprintf("Read(%s) disagrees with the committed map (%q, present=%v), err=%v", kname(k), want, ok, xerr))
				return
			}
		case r < 78: // iterate committed items
			if wide && rng.Intn(150) != 0 {
				continue
			}
			trace = append(trace, "Iterate")
			got := map[ledger.LedgerKey]string{}
			var order []ledger.LedgerKey
			_ = A.IterateReadAllItems(func(it *kvItem) xerrors.XError {
				got[it.K] = it.V
				order = append(order, it.K)
				return nil
			})
			if mapStr(got) != mapStr(m.committed) {
				bad("iterate", fmt.Sprintf("IterateReadAllItems yields %s, committed map is %s", mapStr(got), mapStr(m.committed)))
				return
			}
			for j := 1; j < len(order); j++ {
				if bytes.Compare(order[j-1][:], order[j][:]) >= 0 {
					bad("iterate-order", "iteration is not in ascending key order")
					return
				}
			}
		case r < 90: // Commit
			if wide && op >= nk && rng.Intn(40) != 0 {
				continue
			}
			trace = append(trace, "Commit")
			hA, vA, xerr := A.Commit()
			hB, vB, xerrB := B.Commit()
			if xerr != nil || xerrB != nil {
				bad("commit-error", fmt.Sprint(xerr, xerrB))
				return
			}
			for kk, e := range m.cons {
				if e.val != nil {
					m.committed[kk] = *e.val
				} else if e.deleted {
					delete(m.committed, kk)
				}
			}
			m.cons = map[ledger.LedgerKey]*ovEntry{}
			m.memp = map[ledger.LedgerKey]*ovEntry{}
			m.history = append(m.history, cloneMap(m.committed))
			commits++
			c.Count("commits", 1)
			if vA != int64(len(m.history)) || vB != vA {
				bad("version", fmt.Sprintf("Commit returned versions %d/%d, expected %d", vA, vB, len(m.history)))
				return
			}
			if !bytes.Equal(hA, hB) {
				bad("root-hash-differs-between-instances", fmt.Sprintf("two instances fed the same operations return root hashes %x and %x at version %d", hA, hB, vA))
				return
			}
			// after the commit: every earlier version still reads as it was committed
			for v := 1; v <= len(m.history); v++ {
				if len(m.history) > 6 && rng.Intn(3) != 0 {
					continue
				}
				if wide && (v < len(m.history)-1 || rng.Intn(40) != 0) {
					continue
				}
				im, xerr := A.ImmutableLedgerAt(int64(v), 0)
				if xerr != nil {
					bad("historical-open", fmt.Sprintf("ImmutableLedgerAt(%d): %v", v, xerr))
					return
				}
				got := map[ledger.LedgerKey]string{}
				_ = im.IterateReadAllItems(func(it *kvItem) xerrors.XError { got[it.K] = it.V; return nil })
				if mapStr(got) != mapStr(m.history[v-1]) {
					bad("historical-read", fmt.Sprintf("version %d reads %s, committed was %s (now at version %d)", v, mapStr(got), mapStr(m.history[v-1]), len(m.history)))
					return
				}
				for ki, kk := range keys {
					if wide && ki%97 != 0 {
						continue
					}
					it, xerr := im.Read(kk)
					want, ok := m.history[v-1][kk]
					if ok != (xerr == nil) || (ok && it.V != want) {
						bad("historical-read", fmt.Sprintf("version %d Read(%s) disagrees with what was committed (%q present=%v)", v, kname(kk), want, ok))
						return
					}
				}
				c.Count("historical-reads", 1)
			}
		default: // close + reopen (uncommitted overlays are lost)
			if rng.Intn(4) != 0 || (wide && rng.Intn(500) != 0) {
				continue
			}
			trace = append(trace, "Reopen")
			if xerr := A.Close(); xerr != nil {
				bad("close", xerr.Error())
				return
			}
			_ = B.Close()
			A, B = open(dirA), open(dirB)
			m.cons = map[ledger.LedgerKey]*ovEntry{}
			m.memp = map[ledger.LedgerKey]*ovEntry{}
			c.Count("reopens", 1)
			if A.Version() != int64(len(m.history)) {
				bad("reopen-version", fmt.Sprintf("after reopen Version()=%d, expected %d", A.Version(), len(m.history)))
				return
			}
			for ki, kk := range keys {
				if wide && ki%97 != 0 {
					continue
				}
				it, xerr := A.GetFinality(kk)
				want, ok := m.committed[kk]
				if ok != (xerr == nil) || (ok && it.V != want) {
					bad("reopen-read", fmt.Sprintf("after reopen GetFinality(%s) disagrees with the committed map", kname(kk)))
					return
				}
			}
		}
	}
	if commits > 0 {
		c.Distinct(fmt.Sprintf("%d:%d:%s", i, commits, mapStr(m.committed)))
	}
	if i < 2 {
		t := trace
		if len(t) > 60 {
			t = t[:60]
		}
		c.Sample(map[string]interface{}{"sequence": i, "keys": nk, "ops": len(trace), "commits": commits, "first_ops": strings.Join(t, " ")})
	}
}

func init() { checks["C18"] = checkC18 }
