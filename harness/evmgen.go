package main

// EVM program generator: a tiny assembler, a multi-function test contract whose behaviour is
// selected by call data, constructors (plain / reverting / value-taking) and call drafts.

import (
	"encoding/binary"
	"fmt"
	"math/big"

	"github.com/ethereum/go-ethereum/common"
	"github.com/ethereum/go-ethereum/core"
	ethcrypto "github.com/ethereum/go-ethereum/crypto"
	rctypes "github.com/rigochain/rigo-go/ctrlers/types"
)

type asm struct {
	code   []byte
	labels map[string]int
	fix    map[int]string
}

func newAsm() *asm { return &asm{labels: map[string]int{}, fix: map[int]string{}} }

func (a *asm) op(b ...byte) *asm { a.code = append(a.code, b...); return a }
func (a *asm) push(v uint64) *asm {
	if v == 0 {
		return a.op(0x60, 0x00)
	}
	var buf [8]byte
	binary.BigEndian.PutUint64(buf[:], v)
	i := 0
	for buf[i] == 0 {
		i++
	}
	n := 8 - i
	a.op(byte(0x60 + n - 1))
	return a.op(buf[i:]...)
}
func (a *asm) pushBytes(b []byte) *asm {
	if len(b) == 0 || len(b) > 32 {
		panic("pushBytes")
	}
	a.op(byte(0x60 + len(b) - 1))
	return a.op(b...)
}
func (a *asm) pushLabel(l string) *asm {
	a.op(0x61)
	a.fix[len(a.code)] = l
	return a.op(0, 0)
}
func (a *asm) label(l string) *asm {
	a.labels[l] = len(a.code)
	return a.op(0x5b)
}
func (a *asm) bytes() []byte {
	out := append([]byte(nil), a.code...)
	for pos, l := range a.fix {
		t, ok := a.labels[l]
		if !ok {
			panic("undefined label " + l)
		}
		out[pos] = byte(t >> 8)
		out[pos+1] = byte(t)
	}
	return out
}

const (
	opSTOP, opADD, opMUL, opSUB, opDIV           = 0x00, 0x01, 0x02, 0x03, 0x04
	opLT, opGT, opEQ, opISZERO, opAND, opSHR     = 0x10, 0x11, 0x14, 0x15, 0x16, 0x1c
	opADDRESS, opBALANCE, opCALLER, opCALLVALUE  = 0x30, 0x31, 0x33, 0x34
	opCALLDATALOAD, opCALLDATASIZE, opCALLDATACP = 0x35, 0x36, 0x37
	opCODECOPY, opRETURNDATASIZE, opRETURNDATACP = 0x39, 0x3d, 0x3e
	opSELFBALANCE                                = 0x47
	opPOP, opMLOAD, opMSTORE, opMSTORE8          = 0x50, 0x51, 0x52, 0x53
	opSLOAD, opSSTORE, opJUMP, opJUMPI, opGAS    = 0x54, 0x55, 0x56, 0x57, 0x5a
	opDUP1, opDUP2, opSWAP1                      = 0x80, 0x81, 0x90
	opLOG0, opLOG1, opLOG2                       = 0xa0, 0xa1, 0xa2
	opCREATE, opCALL, opRETURN, opDELEGATECALL   = 0xf0, 0xf1, 0xf3, 0xf4
	opCREATE2, opSTATICCALL, opREVERT, opINVALID = 0xf5, 0xfa, 0xfd, 0xfe
	opSELFDESTRUCT                               = 0xff
)

// childRuntime: on any call, slot0 += 1 and LOG1(topic=callvalue).
func childRuntime() []byte {
	a := newAsm()
	a.push(0).op(opSLOAD).push(1).op(opADD).push(0).op(opSSTORE)
	a.op(opCALLVALUE).push(0).push(0).op(opLOG1)
	a.op(opSTOP)
	return a.bytes()
}

// initFor wraps runtime code in a constructor: [prologue] CODECOPY runtime; RETURN.
func initFor(runtime []byte, ctor string) []byte {
	a := newAsm()
	switch ctor {
	case "store":
		a.push(7).push(100).op(opSSTORE) // slot100 = 7
	case "revert":
		a.push(0).push(0).op(opREVERT)
	case "invalid":
		a.op(opINVALID)
	}
	// size, offset(in code), destOffset
	pre := newAsm()
	pre.code = append(pre.code, a.code...)
	// we need the offset of runtime within init: prologue + fixed 13 bytes epilogue
	// epilogue: PUSH2 size, DUP1, PUSH2 off, PUSH1 0, CODECOPY, PUSH1 0, RETURN
	off := len(pre.code) + 13
	pre.op(0x61, byte(len(runtime)>>8), byte(len(runtime))) // PUSH2 size
	pre.op(opDUP1)
	pre.op(0x61, byte(off>>8), byte(off)) // PUSH2 off
	pre.op(0x60, 0x00)                    // PUSH1 0
	pre.op(opCODECOPY)
	pre.op(0x60, 0x00) // PUSH1 0
	pre.op(opRETURN)
	if len(pre.code) != off {
		panic(fmt.Sprintf("initFor: epilogue size %d != %d", len(pre.code), off))
	}
	return append(pre.code, runtime...)
}

// mainRuntime builds the multi-function contract. Call data: [selector:1][A:32][B:32][C:32].
func mainRuntime() []byte {
	a := newAsm()
	argA := func() { a.push(1).op(opCALLDATALOAD) }
	argB := func() { a.push(33).op(opCALLDATALOAD) }
	argC := func() { a.push(65).op(opCALLDATALOAD) }
	// empty call data -> receive
	a.op(opCALLDATASIZE).op(opISZERO).pushLabel("receive").op(opJUMPI)
	// selector = calldataload(0) >> 248
	a.push(0).op(opCALLDATALOAD).push(248).op(opSHR)
	sels := []string{"receive", "store", "load", "forward", "revertdata", "invalid", "loop", "destruct", "create", "callmayberevert",
		"trycall", "balances", "static", "delegate", "ecrecover", "create2", "clear", "destructself", "multicall", "rawcall", "nest", "blockhash"}
	for i, s := range sels {
		a.op(opDUP1).push(uint64(i)).op(opEQ).pushLabel(s).op(opJUMPI)
	}
	a.push(0).push(0).op(opREVERT)

	// receive: slot0 += 1; LOG1(topic = callvalue)
	a.label("receive")
	a.push(0).op(opSLOAD).push(1).op(opADD).push(0).op(opSSTORE)
	a.op(opCALLVALUE).push(0).push(0).op(opLOG1)
	a.op(opSTOP)

	// store: sstore(A, B); LOG2(A, B)
	a.label("store")
	argB()
	argA()
	a.op(opSSTORE)
	argB()
	argA()
	a.push(0).push(0).op(opLOG2)
	a.op(opSTOP)

	// load: return sload(A)
	a.label("load")
	argA()
	a.op(opSLOAD).push(0).op(opMSTORE).push(32).push(0).op(opRETURN)

	// forward: CALL(gas, A, B, 0,0,0,0); slot1 = success
	a.label("forward")
	a.push(0).push(0).push(0).push(0)
	argB()
	argA()
	a.op(opGAS).op(opCALL)
	a.push(1).op(opSSTORE)
	a.op(opSTOP)

	// revertdata: revert(A)
	a.label("revertdata")
	argA()
	a.push(0).op(opMSTORE).push(32).push(0).op(opREVERT)

	a.label("invalid")
	a.op(opINVALID)

	a.label("loop")
	a.label("loop2")
	a.pushLabel("loop2").op(opJUMP)

	// destruct(A)
	a.label("destruct")
	argA()
	a.op(opSELFDESTRUCT)

	// create: child = CREATE(value=B, init); slot2 = child; return child
	child := initFor(childRuntime(), "")
	emitInit := func() {
		// copy init code into memory word by word via PUSH32/MSTORE
		for off := 0; off < len(child); off += 32 {
			var w [32]byte
			copy(w[:], child[off:])
			a.pushBytes(w[:]).push(uint64(off)).op(opMSTORE)
		}
	}
	a.label("create")
	emitInit()
	a.push(uint64(len(child))).push(0)
	argB()
	a.op(opCREATE)
	a.op(opDUP1).push(2).op(opSSTORE)
	a.push(0).op(opMSTORE).push(32).push(0).op(opRETURN)

	// callmayberevert: CALL(A, value B, empty data); if C != 0 revert
	a.label("callmayberevert")
	a.push(0).push(0).push(0).push(0)
	argB()
	argA()
	a.op(opGAS).op(opCALL).op(opPOP)
	argC()
	a.pushLabel("dorevert").op(opJUMPI)
	a.op(opSTOP)
	a.label("dorevert")
	a.push(0).push(0).op(opREVERT)

	// trycall: mem[0] = selector C; CALL(gas 60000, A, value B, in 0..1); slot3 = success; slot4 = BALANCE(A)
	a.label("trycall")
	argC()
	a.push(0).op(opMSTORE8)
	a.push(0).push(0).push(1).push(0)
	argB()
	argA()
	a.push(60000).op(opCALL)
	a.push(3).op(opSSTORE)
	argA()
	a.op(opBALANCE).push(4).op(opSSTORE)
	a.op(opSTOP)

	// balances: slot5 = BALANCE(A); slot6 = SELFBALANCE; return BALANCE(A)
	a.label("balances")
	argA()
	a.op(opBALANCE).op(opDUP1).push(5).op(opSSTORE)
	a.op(opSELFBALANCE).push(6).op(opSSTORE)
	a.push(0).op(opMSTORE).push(32).push(0).op(opRETURN)

	// static: mem[0]=selector C, mem[1..33]=B ; STATICCALL(gas 60000, A, in 0..33, out 0..0); slot7 = success; return returndata
	a.label("static")
	argB()
	a.push(1).op(opMSTORE)
	argC()
	a.push(0).op(opMSTORE8)
	a.push(0).push(0).push(33).push(0)
	argA()
	a.push(60000).op(opSTATICCALL)
	a.push(7).op(opSSTORE)
	a.op(opRETURNDATASIZE).push(0).push(0).op(opRETURNDATACP)
	a.op(opRETURNDATASIZE).push(0).op(opRETURN)

	// delegate: copy calldata[33:] to mem; DELEGATECALL(gas 100000, A, mem, size)
	a.label("delegate")
	a.push(33).op(opCALLDATASIZE).op(opSUB)        // size
	a.op(opDUP1).push(33).push(0).op(opCALLDATACP) // calldatacopy(dest 0, off 33, size) -- stack: size
	a.push(0).push(0)                              // out size, out off
	a.op(0x82)                                     // DUP3 size
	a.push(0)                                      // in off
	argA()
	a.push(100000).op(opDELEGATECALL)
	a.push(8).op(opSSTORE)
	a.op(opPOP)
	a.op(opSTOP)

	// ecrecover: CALL precompile 1 with calldata[1..129]; return 32 bytes
	a.label("ecrecover")
	a.push(128).push(1).push(0).op(opCALLDATACP)
	a.push(32).push(128).push(128).push(0).push(0).push(1).push(50000).op(opCALL).op(opPOP)
	a.push(32).push(128).op(opRETURN)

	// create2: CREATE2(value B, init, salt A)
	a.label("create2")
	emitInit()
	argA()
	a.push(uint64(len(child))).push(0)
	argB()
	a.op(opCREATE2)
	a.op(opDUP1).push(9).op(opSSTORE)
	a.push(0).op(opMSTORE).push(32).push(0).op(opRETURN)

	// clear: sstore(A, 0)
	a.label("clear")
	a.push(0)
	argA()
	a.op(opSSTORE)
	a.op(opSTOP)

	a.label("destructself")
	a.op(opADDRESS).op(opSELFDESTRUCT)

	// multicall: two sequential calls whose failures are swallowed.
	//   call 1: CALL(100000, A, 0,        [selA][W])   selA = low byte of D
	//   call 2: CALL(100000, B, CALLVALUE,[selB][W])   selB = second byte of D      (W = C, D at offset 97)
	a.label("multicall")
	argC()
	a.push(1).op(opMSTORE)
	a.push(97).op(opCALLDATALOAD).push(0xff).op(opAND).push(0).op(opMSTORE8)
	a.push(0).push(0).push(33).push(0).push(0)
	argA()
	a.push(100000).op(opCALL).op(opPOP)
	a.push(97).op(opCALLDATALOAD).push(8).op(opSHR).push(0xff).op(opAND).push(0).op(opMSTORE8)
	a.push(0).push(0).push(33).push(0).op(opCALLVALUE)
	argB()
	a.push(100000).op(opCALL).op(opPOP)
	a.op(opSTOP)

	// rawcall: CALL(100000, A, CALLVALUE, calldata[65 : 65+B]) and return its output (A may be a precompile, B any length)
	a.label("rawcall")
	argB()
	a.push(65).push(0).op(opCALLDATACP) // calldatacopy(dest 0, off 65, size B)
	a.push(0).push(0)
	argB()
	a.push(0).op(opCALLVALUE)
	argA()
	a.push(100000).op(opCALL)
	a.push(11).op(opSSTORE)
	a.op(opRETURNDATASIZE).push(0).push(0).op(opRETURNDATACP)
	a.op(opRETURNDATASIZE).push(0).op(opRETURN)

	// nest: CALL(100000, A, CALLVALUE, [sel][W]) with sel = low byte of D, W = C; afterwards revert if B != 0.
	// A nested frame that returns normally (and first touches W there) inside an outer frame that fails.
	a.label("nest")
	argC()
	a.push(1).op(opMSTORE)
	a.push(97).op(opCALLDATALOAD).push(0xff).op(opAND).push(0).op(opMSTORE8)
	a.push(0).push(0).push(33).push(0).op(opCALLVALUE)
	argA()
	a.push(100000).op(opCALL).push(12).op(opSSTORE)
	argB()
	a.pushLabel("dorevert").op(opJUMPI)
	a.op(opSTOP)

	// blockhash: return BLOCKHASH(NUMBER - A); no state is touched (what the opcode answers is not fixed by the
	// properties, but it must be the same on every replica and after a restart)
	a.label("blockhash")
	argA()
	a.op(0x43).op(opSUB).op(0x40) // NUMBER, SUB, BLOCKHASH
	a.push(0).op(opMSTORE).push(32).push(0).op(opRETURN)
	return a.bytes()
}

var mainCode = mainRuntime()

func word(b []byte) []byte {
	var w [32]byte
	copy(w[32-len(b):], b)
	return w[:]
}

func wordU(v uint64) []byte { return word(new(big.Int).SetUint64(v).Bytes()) }

func callData(sel byte, a, b, cc []byte) []byte {
	out := []byte{sel}
	out = append(out, word(a)...)
	out = append(out, word(b)...)
	out = append(out, word(cc)...)
	return out
}

func createAddr(from []byte, nonce uint64) []byte {
	var f common.Address
	copy(f[:], from)
	a := ethcrypto.CreateAddress(f, nonce)
	return a[:]
}

func (g *Gen) draftEVM(kind string, h int64, sh *MState, P *DParams, price *big.Int, fund []*Key,
	mk func(typ int32, k *Key, to []byte, amt *big.Int, pl rctypes.ITrxPayload, label string) *txDraft) *txDraft {
	// the sender must afford gas*price
	gasBudget := uint64(300000 + g.rng.Intn(700000))
	if kind == "deploy" {
		gasBudget = uint64(900000 + g.rng.Intn(600000))
	}
	need := new(big.Int).Mul(new(big.Int).SetUint64(gasBudget), price)
	var rich []*Key
	for _, k := range fund {
		if a := sh.Accounts[k.A()]; a != nil && a.Bal.Cmp(new(big.Int).Add(need, big.NewInt(1000))) > 0 {
			rich = append(rich, k)
		}
	}
	if len(rich) == 0 {
		return nil
	}
	k := g.pick(rich)
	bal := sh.Accounts[k.A()].Bal
	spare := new(big.Int).Sub(bal, need)
	val := func() *big.Int {
		switch g.rng.Intn(4) {
		case 0:
			return new(big.Int)
		case 1:
			return big.NewInt(int64(1 + g.rng.Intn(1000)))
		default:
			return new(big.Int).Rand(g.rng, new(big.Int).Add(new(big.Int).Div(spare, big.NewInt(20)), big.NewInt(1)))
		}
	}
	anyTarget := func() []byte {
		switch g.rng.Intn(5) {
		case 0:
			return g.pick(g.All).Addr
		case 1:
			return g.pick(g.Fresh).Addr
		case 2:
			return sha256sum([]byte(fmt.Sprint("nowhere", g.seq)))[:20]
		default:
			if len(g.Contracts) > 0 {
				return addrBytes(g.Contracts[g.rng.Intn(len(g.Contracts))].Addr)
			}
			return g.pick(g.All).Addr
		}
	}
	switch kind {
	case "deploy":
		ctor := []string{"", "", "store", "store", "revert", "invalid"}[g.rng.Intn(6)]
		code := initFor(mainCode, ctor)
		v := new(big.Int)
		if g.rng.Intn(3) == 0 && ctor != "revert" && ctor != "invalid" {
			v = val()
		}
		d := mk(rctypes.TRX_CONTRACT, k, zeroAddr, v, &rctypes.TrxPayloadContract{Data: code}, "deploy:"+ctor)
		d.tx.Gas = gasBudget
		if g.rng.Intn(5) == 0 {
			// gas limit around the intrinsic gas of a creation (which is 32000 above that of a call with the same data):
			// one below it, exactly it, or between the two; never enough to run the constructor and pay for the code
			if ig, err := core.IntrinsicGas(code, nil, true, true, true); err == nil && ig > 32000 {
				d.tx.Gas = []uint64{ig - 1, ig, ig - 32000, ig - 32000 + uint64(g.rng.Intn(32000)), ig + uint64(g.rng.Intn(200))}[g.rng.Intn(5)]
				d.ok = false
				d.label = "invalid:evm-gas-around-creation-intrinsic(deploy)"
				return d
			}
		}
		if ctor == "revert" || ctor == "invalid" {
			d.ok = false
			d.label = "invalid:evm-failing-constructor(deploy)"
		} else {
			ca := createAddr(k.Addr, d.tx.Nonce)
			g.Contracts = append(g.Contracts, &contractInfo{Addr: hx(ca), Kind: "main"})
		}
		return d
	case "xfer2contract":
		var pool []string
		for _, ci := range g.Contracts {
			pool = append(pool, ci.Addr)
		}
		if g.ExtraContracts != nil {
			pool = append(pool, g.ExtraContracts()...)
		}
		if len(pool) == 0 {
			return nil
		}
		to := addrBytes(pool[g.rng.Intn(len(pool))])
		d := mk(rctypes.TRX_TRANSFER, k, to, val(), nil, "transfer-to-contract")
		d.tx.Gas = gasBudget
		if g.rng.Intn(5) == 0 {
			// admitted by the fee rule but below what the EVM needs for a plain call
			lo := P.MinTrxGas
			if lo < 21000 {
				d.tx.Gas = lo + uint64(g.rng.Intn(int(21000-lo)))
				d.ok = false
				d.label = "invalid:evm-below-intrinsic-gas(transfer-to-contract)"
			}
		}
		return d
	case "call":
		if len(g.Contracts) == 0 {
			return nil
		}
		to := addrBytes(g.Contracts[g.rng.Intn(len(g.Contracts))].Addr)
		slot := wordU(uint64(10 + g.rng.Intn(4)))
		type cs struct {
			name  string
			data  []byte
			value *big.Int
			fails bool
		}
		small := func() []byte { return big.NewInt(int64(g.rng.Intn(5000))).Bytes() }
		cands := []cs{
			{"receive", nil, val(), false},
			{"store", callData(1, slot, wordU(uint64(1+g.rng.Intn(1000))), nil), new(big.Int), false},
			{"store-zero", callData(1, slot, wordU(0), nil), new(big.Int), false},
			{"clear", callData(16, slot, nil, nil), new(big.Int), false},
			{"load", callData(2, slot, nil, nil), new(big.Int), false},
			{"forward", callData(3, anyTarget(), small(), nil), val(), false},
			{"revertdata", callData(4, wordU(uint64(g.rng.Intn(1e6))), nil, nil), val(), true},
			{"invalid-op", callData(5, nil, nil, nil), val(), true},
			{"loop-oog", callData(6, nil, nil, nil), new(big.Int), true},
			{"destruct", callData(7, anyTarget(), nil, nil), val(), false},
			{"create", callData(8, nil, small(), nil), val(), false},
			{"call-then-ok", callData(9, anyTarget(), small(), wordU(0)), val(), false},
			{"call-then-revert", callData(9, anyTarget(), small(), wordU(1)), val(), true},
			{"trycall-receive", callData(10, anyTarget(), small(), wordU(0)), val(), false},
			{"trycall-revert", callData(10, anyTarget(), small(), wordU(4)), val(), false},
			{"trycall-invalid", callData(10, anyTarget(), small(), wordU(5)), val(), false},
			{"trycall-loop", callData(10, anyTarget(), small(), wordU(6)), val(), false},
			{"trycall-destructself", callData(10, anyTarget(), small(), wordU(17)), val(), false},
			{"balances", callData(11, anyTarget(), nil, nil), new(big.Int), false},
			{"static-load", callData(12, anyTarget(), slot, wordU(2)), new(big.Int), false},
			{"static-store", callData(12, anyTarget(), slot, wordU(1)), new(big.Int), false},
			{"delegate-store", append(callData(13, anyTarget(), nil, nil)[:33], callData(1, slot, wordU(uint64(g.rng.Intn(99))), nil)...), new(big.Int), false},
			{"delegate-destruct", append(callData(13, anyTarget(), nil, nil)[:33], callData(7, anyTarget(), nil, nil)...), new(big.Int), false},
			{"ecrecover-junk", append([]byte{14}, sha256sum([]byte(fmt.Sprint(g.seq)))...), new(big.Int), false},
			{"create2", callData(15, wordU(uint64(g.rng.Intn(3))), small(), nil), val(), false},
			{"destructself", callData(17, nil, nil, nil), val(), false},
			{"unknown-selector", callData(200, nil, nil, nil), new(big.Int), true},
		}
		// multicall patterns: (failing call, then a paying call to the same address), (self-destruct of another
		// contract to a fresh beneficiary, then a failing call), (two successes)
		x, y := anyTarget(), anyTarget()
		mc := func(name string, a1 []byte, s1 byte, a2 []byte, s2 byte, w []byte, v *big.Int) cs {
			d := callData(18, a1, a2, w)
			d = append(d, wordU(uint64(s1)|uint64(s2)<<8)...)
			return cs{name, d, v, false}
		}
		pre := make([]byte, 20)
		pre[19] = byte(1 + g.rng.Intn(9))
		rawIn := make([]byte, []int{0, 1, 31, 32, 64, 96, 127, 128, 200}[g.rng.Intn(9)])
		g.rng.Read(rawIn)
		cands = append(cands,
			cs{"rawcall-precompile", append(callData(19, pre, wordU(uint64(len(rawIn))), nil)[:65], rawIn...), new(big.Int), false},
			cs{"rawcall-contract", append(callData(19, anyTarget(), wordU(uint64(len(rawIn))), nil)[:65], rawIn...), val(), false},
		)
		cands = append(cands,
			mc("multicall-fail-then-pay-same", x, 5, x, 0, nil, val()),
			mc("multicall-revert-then-pay-same", x, 4, x, 0, wordU(7), val()),
			mc("multicall-destruct-then-fail", x, 7, y, 5, sha256sum([]byte(fmt.Sprint("benef", g.seq)))[:20], new(big.Int)),
			mc("multicall-destruct-then-revert", x, 7, y, 4, g.pick(g.Fresh).Addr, new(big.Int)),
			mc("multicall-pay-pay", x, 0, y, 0, nil, val()),
			mc("multicall-destruct-then-pay-same", x, 7, x, 0, g.pick(g.Fresh).Addr, val()),
			mc("multicall-destructself-then-pay-same", x, 17, x, 0, nil, val()),
			mc("multicall-destruct-then-destruct-into-it", x, 7, y, 7, x, val()),
			mc("multicall-oog-then-pay", x, 6, x, 0, nil, val()),
		)
		// nested frame succeeds (touching a third party for the first time inside it), outer frame fails or not
		nest := func(name string, a1 []byte, sel byte, w []byte, revert uint64, v *big.Int) cs {
			d := callData(20, a1, wordU(revert), w)
			d = append(d, wordU(uint64(sel))...)
			return cs{name, d, v, revert != 0}
		}
		third := func() []byte {
			if g.rng.Intn(3) == 0 {
				return anyTarget()
			}
			return g.pick(g.All).Addr
		}
		cands = append(cands,
			cs{"call0-then-revert", callData(9, third(), nil, wordU(1)), val(), true},
			cs{"call0-then-ok", callData(9, third(), nil, wordU(0)), val(), false},
			nest("nest-balances-then-revert", x, 11, third(), 1, new(big.Int)),
			nest("nest-self-balances-then-revert", to, 11, third(), 1, val()),
			nest("nest-forward-then-revert", x, 3, third(), 1, val()),
			nest("nest-destruct-then-revert", x, 7, third(), 1, new(big.Int)),
			nest("nest-balances-then-ok", x, 11, third(), 0, new(big.Int)),
			nest("nest-forward-then-ok", x, 3, third(), 0, val()),
			nest("nest-nest-then-revert", x, 20, third(), 1, new(big.Int)),
			cs{"blockhash", callData(21, wordU(uint64(1+g.rng.Intn(12))), nil, nil), new(big.Int), false},
			cs{"blockhash", callData(21, wordU(uint64(1+g.rng.Intn(4))), nil, nil), new(big.Int), false},
		)
		ch := cands[g.rng.Intn(len(cands))]
		d := mk(rctypes.TRX_CONTRACT, k, to, ch.value, &rctypes.TrxPayloadContract{Data: ch.data}, "call:"+ch.name)
		d.tx.Gas = gasBudget
		if g.rng.Intn(12) == 0 {
			d.tx.Gas = 21000 + uint64(g.rng.Intn(4000)) // under-gassed
			ch.fails = true
		} else if lo := P.MinTrxGas; lo < 21000 && g.rng.Intn(12) == 0 {
			// admitted by the fee rule, refused by the EVM before execution starts (below intrinsic gas)
			d.tx.Gas = lo + uint64(g.rng.Intn(int(21000-lo)))
			ch.fails = true
			ch.name = "below-intrinsic-gas:" + ch.name
		} else if g.rng.Intn(12) == 0 {
			// more gas than a whole block may use: refused in every block, however long the node has been running
			huge := uint64(25_000_001 + g.rng.Intn(40_000_000))
			if a := sh.Accounts[k.A()]; a != nil && new(big.Int).Mul(new(big.Int).SetUint64(huge*2), price).Cmp(a.Bal) < 0 {
				d.tx.Gas = huge
				ch.fails = true
				ch.name = "gas-above-block-limit:" + ch.name
			}
		}
		if ch.fails {
			d.ok = false
			d.label = "invalid:evm-" + ch.name + "(call)"
		}
		return d
	}
	return nil
}
