package main

// Driver side of a vnode replica: spawn, call, kill.

import (
	"bufio"
	"encoding/gob"
	"errors"
	"fmt"
	"io"
	"os"
	"os/exec"
	"path/filepath"
	"strings"
	"sync"
	"syscall"
	"time"

	abci "github.com/tendermint/tendermint/abci/types"
)

var (
	selfBin     string // path of this binary (plain build)
	selfBinRace string // -race build (may be empty)
	selfBinAsan string // -asan build (may be empty)
)

// ErrDead: the replica process died (panic, fatal error, kill).
type ErrDead struct {
	Op     string
	Status string
	Stderr string
}

func (e *ErrDead) Error() string {
	return fmt.Sprintf("replica died during %s: %s\n%s", e.Op, e.Status, e.Stderr)
}

// ErrWatchdog: the replica did not answer within the (generous) wall-clock limit: inconclusive.
type ErrWatchdog struct{ Op string }

func (e *ErrWatchdog) Error() string { return "watchdog fired during " + e.Op }

type Replica struct {
	Dir      string
	Name     string
	cmd      *exec.Cmd
	in       io.WriteCloser
	enc      *gob.Encoder
	dec      *gob.Decoder
	errPath  string
	mtx      sync.Mutex
	dead     bool
	Watchdog time.Duration
	exited   chan struct{}
	out      *os.File
	waitErr  error
}

type SpawnOpt struct {
	Race bool
	Asan bool // AddressSanitizer build (Go code and the cgo secp256k1 library); a report is process-fatal
	Env  []string
	Log  bool
}

var spawnSeq int64
var spawnMtx sync.Mutex

func Spawn(dir string, opt SpawnOpt) (*Replica, error) {
	bin := selfBin
	if opt.Race {
		if selfBinRace == "" {
			return nil, errors.New("race binary not available")
		}
		bin = selfBinRace
	}
	if opt.Asan {
		if selfBinAsan == "" {
			return nil, errors.New("asan binary not available")
		}
		bin = selfBinAsan
	}
	if err := os.MkdirAll(dir, 0o755); err != nil {
		return nil, err
	}
	spawnMtx.Lock()
	spawnSeq++
	seq := spawnSeq
	spawnMtx.Unlock()
	errPath := filepath.Join(dir, fmt.Sprintf("stderr.%d.log", seq))
	ef, err := os.Create(errPath)
	if err != nil {
		return nil, err
	}
	cmd := exec.Command(bin, "node", dir)
	cmd.Env = append(os.Environ(), opt.Env...)
	if opt.Log {
		cmd.Env = append(cmd.Env, "VNODE_LOG=1")
	}
	cmd.Stderr = ef
	in, err := cmd.StdinPipe()
	if err != nil {
		return nil, err
	}
	// own pipe: cmd.Wait() must not close the read side while a response is still unread
	out, pw, err := os.Pipe()
	if err != nil {
		return nil, err
	}
	cmd.Stdout = pw
	cmd.SysProcAttr = &syscall.SysProcAttr{Pdeathsig: syscall.SIGKILL}
	if err := cmd.Start(); err != nil {
		pw.Close()
		out.Close()
		return nil, err
	}
	pw.Close()
	ef.Close()
	r := &Replica{Dir: dir, cmd: cmd, in: in, enc: gob.NewEncoder(in), dec: gob.NewDecoder(bufio.NewReader(out)),
		errPath: errPath, Watchdog: 120 * time.Second, exited: make(chan struct{})}
	go func() {
		r.waitErr = cmd.Wait()
		close(r.exited)
	}()
	r.out = out
	return r, nil
}

func (r *Replica) stderrTail(n int) string {
	bz, err := os.ReadFile(r.errPath)
	if err != nil {
		return ""
	}
	s := string(bz)
	// prefer the part starting at the panic / fatal error
	for _, mark := range []string{"panic:", "fatal error:", "WARNING: DATA RACE"} {
		if i := strings.Index(s, mark); i >= 0 {
			s = s[i:]
			break
		}
	}
	if len(s) > n {
		s = s[:n]
	}
	return s
}

// StderrAll returns the whole stderr log of the replica.
func (r *Replica) StderrAll() string {
	bz, _ := os.ReadFile(r.errPath)
	return string(bz)
}

func (r *Replica) Call(c *Cmd) (*Rsp, error) {
	r.mtx.Lock()
	defer r.mtx.Unlock()
	if r.dead {
		return nil, &ErrDead{Op: c.Op, Status: "already dead"}
	}
	type result struct {
		rsp *Rsp
		err error
	}
	ch := make(chan result, 1)
	go func() {
		if err := r.enc.Encode(c); err != nil {
			ch <- result{nil, err}
			return
		}
		var rsp Rsp
		if err := r.dec.Decode(&rsp); err != nil {
			ch <- result{nil, err}
			return
		}
		ch <- result{&rsp, nil}
	}()
	select {
	case res := <-ch:
		if res.err != nil {
			r.dead = true
			select {
			case <-r.exited:
			case <-time.After(10 * time.Second):
				_ = r.cmd.Process.Kill()
				<-r.exited
			}
			st := "?"
			if r.cmd.ProcessState != nil {
				st = r.cmd.ProcessState.String()
			}
			return nil, &ErrDead{Op: c.Op, Status: st, Stderr: r.stderrTail(6000)}
		}
		return res.rsp, nil
	case <-time.After(r.Watchdog):
		r.dead = true
		_ = r.cmd.Process.Signal(syscall.SIGQUIT)
		time.Sleep(500 * time.Millisecond)
		_ = r.cmd.Process.Kill()
		<-r.exited
		return nil, &ErrWatchdog{Op: c.Op}
	}
}

// Kill terminates the process immediately (SIGKILL).
func (r *Replica) Kill() {
	r.mtx.Lock()
	defer r.mtx.Unlock()
	if r.cmd.Process != nil {
		_ = r.cmd.Process.Kill()
	}
	<-r.exited
	r.dead = true
}

// Stop asks for a graceful application Stop and waits for the process to exit.
func (r *Replica) Stop() error {
	rsp, err := r.Call(&Cmd{Op: "stop"})
	r.mtx.Lock()
	r.in.Close()
	r.mtx.Unlock()
	select {
	case <-r.exited:
	case <-time.After(20 * time.Second):
		_ = r.cmd.Process.Kill()
		<-r.exited
	}
	r.dead = true
	if err != nil {
		return err
	}
	if rsp.Err != "" {
		return errors.New(rsp.Err)
	}
	return nil
}

// Close kills the process if it is still alive.
func (r *Replica) Close() {
	r.mtx.Lock()
	dead := r.dead
	r.mtx.Unlock()
	if !dead {
		r.Kill()
	}
	if r.out != nil {
		_ = r.out.Close()
	}
	_ = r.in.Close()
}

func (r *Replica) call(op string, req []byte) ([]byte, error) {
	rsp, err := r.Call(&Cmd{Op: op, Req: req})
	if err != nil {
		return nil, err
	}
	if rsp.Err != "" {
		return nil, fmt.Errorf("%s: %s", op, rsp.Err)
	}
	return rsp.Res, nil
}

func (r *Replica) Info() (*abci.ResponseInfo, error) {
	bz, err := r.call("info", pb(&abci.RequestInfo{}))
	if err != nil {
		return nil, err
	}
	res := &abci.ResponseInfo{}
	return res, res.Unmarshal(bz)
}

func (r *Replica) InitChain(req *abci.RequestInitChain) (*abci.ResponseInitChain, error) {
	bz, err := r.call("init", pb(req))
	if err != nil {
		return nil, err
	}
	res := &abci.ResponseInitChain{}
	return res, res.Unmarshal(bz)
}

func (r *Replica) BeginBlock(req *abci.RequestBeginBlock) (*abci.ResponseBeginBlock, error) {
	bz, err := r.call("begin", pb(req))
	if err != nil {
		return nil, err
	}
	res := &abci.ResponseBeginBlock{}
	return res, res.Unmarshal(bz)
}

func (r *Replica) DeliverTx(tx []byte) (*abci.ResponseDeliverTx, error) {
	bz, err := r.call("deliver", tx)
	if err != nil {
		return nil, err
	}
	res := &abci.ResponseDeliverTx{}
	return res, res.Unmarshal(bz)
}

func (r *Replica) EndBlock(h int64) (*abci.ResponseEndBlock, error) {
	bz, err := r.call("end", pb(&abci.RequestEndBlock{Height: h}))
	if err != nil {
		return nil, err
	}
	res := &abci.ResponseEndBlock{}
	return res, res.Unmarshal(bz)
}

func (r *Replica) Commit() (*abci.ResponseCommit, error) {
	bz, err := r.call("commit", nil)
	if err != nil {
		return nil, err
	}
	res := &abci.ResponseCommit{}
	return res, res.Unmarshal(bz)
}

func (r *Replica) CheckTx(tx []byte) (*abci.ResponseCheckTx, error) {
	bz, err := r.call("check", tx)
	if err != nil {
		return nil, err
	}
	res := &abci.ResponseCheckTx{}
	return res, res.Unmarshal(bz)
}

func (r *Replica) Query(path string, data []byte, height int64) (*abci.ResponseQuery, error) {
	bz, err := r.call("query", pb(&abci.RequestQuery{Path: path, Data: data, Height: height}))
	if err != nil {
		return nil, err
	}
	res := &abci.ResponseQuery{}
	return res, res.Unmarshal(bz)
}

func (r *Replica) DumpAt(h int64, addrs [][]byte) (*Dump, error) {
	rsp, err := r.Call(&Cmd{Op: "dump", Height: h, Addrs: addrs})
	if err != nil {
		return nil, err
	}
	if rsp.Err != "" {
		return nil, fmt.Errorf("dump(%d): %s", h, rsp.Err)
	}
	return rsp.Dump, nil
}

func (r *Replica) Active() (*Active, error) {
	rsp, err := r.Call(&Cmd{Op: "active"})
	if err != nil {
		return nil, err
	}
	return rsp.Active, nil
}

func (r *Replica) Arm(point string, nth int) error {
	_, err := r.Call(&Cmd{Op: "arm", Point: point, Nth: nth})
	return err
}

func (r *Replica) Hits() (map[string]int, []string, error) {
	rsp, err := r.Call(&Cmd{Op: "hits"})
	if err != nil {
		return nil, nil, err
	}
	return rsp.Hits, rsp.Order, nil
}

func (r *Replica) SetTimes(t map[int64]int64) error {
	_, err := r.Call(&Cmd{Op: "settimes", Times: t})
	return err
}
