#!/bin/bash
# Runs the repository's own test suite with the `verif` build tag OFF (hooks compiled out).
# Prints one line per test: "<package>::<test> PASS|FAIL".
export GOFLAGS=-mod=mod GOPROXY=off GOSUMDB=off GOTOOLCHAIN=local
cd /repo || exit 2
go test -json -vet=off -count=1 -timeout 25m ./... 2>/dev/null | python3 -c '
import sys, json
res = {}
for line in sys.stdin:
    try:
        e = json.loads(line)
    except Exception:
        continue
    if e.get("Test") and e.get("Action") in ("pass", "fail") and "/" not in e["Test"]:
        res[e["Package"] + "::" + e["Test"]] = e["Action"].upper()
for k in sorted(res):
    print(k, res[k])
bad = [k for k, v in res.items() if v != "PASS"]
print("TOTAL", len(res), "FAILED", len(bad))
'
