#!/usr/bin/env python3
"""Re-run the kill matrix: every change kept under /verif/seeded/ must still be reported by the check of its property.
usage: tools_regress.py [ids...]   (env SEED_REPO / SEED_VERIF select a scratch copy, TIER=quick|thorough)"""
import glob, json, os, re, subprocess, sys
REPO = os.environ.get("SEED_REPO", "/repo")
VERIF = os.environ.get("SEED_VERIF", "/verif")
TIER = os.environ.get("TIER", "quick")
def sh(cmd, cwd=None, env=None):
    p = subprocess.run(cmd, shell=True, cwd=cwd, env=env, stdout=subprocess.PIPE, stderr=subprocess.STDOUT)
    return p.returncode, p.stdout.decode(errors="replace")
ids = sys.argv[1:] or sorted(os.path.basename(d) for d in glob.glob("/verif/seeded/*") if os.path.isdir(d))
miss = []
for sid in ids:
    d = f"/verif/seeded/{sid}"
    meta = json.load(open(d + "/meta.json"))
    prop = meta["property"]
    rc, out = sh("git status --porcelain --untracked-files=no", cwd=REPO)
    if out.strip():
        print("repo not clean:", REPO); sys.exit(2)
    rc, out = sh(f"git apply {d}/patch.diff", cwd=REPO)
    if rc != 0:
        print(sid, "PATCH DOES NOT APPLY", out[-200:]); miss.append(sid); continue
    try:
        rc, out = sh(f"./check {prop} {TIER}", cwd=VERIF, env=dict(os.environ, VERIF_SEED=os.environ.get("VERIF_SEED", "1"), VERIF_REPO=REPO))
    finally:
        sh("git checkout -- ." + ("" if REPO == "/repo" else " && git clean -fdq"), cwd=REPO)  # new files of a patch are removed in scratch worktrees
    sigs = sorted(set(re.findall(r"violation signature: (.*)", out)))
    status = "caught" if rc == 1 else ("INCONCLUSIVE" if rc == 2 else "MISSED")
    if rc != 1:
        miss.append(sid)
    print(f"{sid:22s} {prop} {TIER} exit={rc} {status} {'; '.join(s[:70] for s in sigs[:3])}", flush=True)
print("not caught:", miss)
