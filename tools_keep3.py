#!/usr/bin/env python3
"""Keep the round-3 sub-agent changes under /verif/seeded/<prop>-r3<a|b>/ with meta.json (confirmation + detection data)."""
import json, os, re, shutil, sys
MUT = "/tmp/mut3"
conf = {}
for f in ("/verif/.build/seeded3_results.json", "/verif/.build/seeded3b_results.json"):
    if os.path.exists(f):
        conf.update(json.load(open(f)))
det = {}
for f in ("/verif/.build/detect3_a.json", "/verif/.build/detect3_b.json"):
    if os.path.exists(f):
        det.update(json.load(open(f)))
first = {}
for line in open("/verif/.build/first_run3.log"):
    m = re.match(r"(C\d\d-[ab]) exit=(\d+)\s*(.*)", line)
    if m:
        first[m.group(1)] = {"own_quick_exit": int(m.group(2)), "signatures": m.group(3).strip()}
rows = []
for pid in ["C%02d" % i for i in range(1, 21)]:
    for v in "ab":
        sid = f"{pid}-{v}"
        d = f"{MUT}/{pid}/DELIVER/{v}"
        if not os.path.exists(d + "/patch.diff"):
            continue
        dst = f"/verif/seeded/{pid}-r3{v}"
        os.makedirs(dst, exist_ok=True)
        shutil.copy(d + "/patch.diff", dst + "/patch.diff")
        shutil.copy(d + "/demo_test.go", dst + "/demo_test.go.txt")
        if os.path.exists(d + "/README.md"):
            shutil.copy(d + "/README.md", dst + "/README.md")
        patch = open(d + "/patch.diff").read()
        files = sorted(set(re.findall(r"^diff --git a/(\S+)", patch, re.M)))
        c = conf.get(sid, {}).get("confirm", {})
        old = conf.get(sid, {}).get("detect")  # detection with the machinery as it was when the round started (where it was run)
        fr = None
        if old:
            fr = {"machinery": "as of the start of round 3", **old}
        elif sid in first:
            fr = {"machinery": "as of the end of round 2 (commit 7698416), own quick check only", **first[sid]}
        dd = det.get(sid, {})
        own = dd.get("own_quick", {})
        others = dd.get("others_quick", {})
        if own.get("exit") == 1:
            result = {"check": pid, "tier": "quick", "exit": 1, "result": "caught", "signatures": "; ".join(own.get("signatures", []))}
        elif others:
            result = {"check": pid, "tier": "quick", "exit": own.get("exit"), "result": "not caught by the owning check; caught by " + ", ".join(sorted(others)),
                      "other_checks": {k: "; ".join(x["signatures"]) for k, x in others.items()}}
        else:
            result = {"check": pid, "tier": "quick", "exit": own.get("exit"), "result": "MISSED by every quick check"}
        meta = {
            "id": f"{pid}-r3{v}", "property": pid,
            "origin": f"third round: sub-agent m3-{pid} (given only the property text and a scratch worktree; asked for defects away from the obvious place: supporting packages, rare branches, late effects)",
            "files_touched": files,
            "what_it_needs_to_manifest": "see README.md (written by the sub-agent)",
            "confirmation": {"demo_placed_at": c.get("demo_dest"), "demo_on_unchanged_tree": c.get("demo_on_clean_tree"), "demo_with_change": c.get("demo_with_mutant"),
                             "go_build": c.get("build_with_mutant"), "unit_tests_with_change (all packages except ./test and the already failing ./ctrlers/gov)": c.get("unit_tests_with_mutant"),
                             "demo_failure_excerpt": c.get("demo_failure_excerpt")},
            "first_detection_run": fr,
            "detected_by": result,
            "what_i_ran": "tools_seeded.py confirm (demo both ways, build, unit tests) on the sub-agent's worktree; tools_detect3.py: patch applied to a scratch worktree at f78396d (VERIF_REPO), ./check <own> quick, and every other check quick when the own one stayed silent, VERIF_SEED=1",
        }
        json.dump(meta, open(dst + "/meta.json", "w"), indent=1)
        title = ""
        if os.path.exists(d + "/README.md"):
            for ln in open(d + "/README.md"):
                if ln.strip().startswith("#"):
                    title = ln.strip("# \n"); break
        rows.append((f"{pid}-r3{v}", title, files, fr, result))
json.dump(rows, open("/verif/.build/round3_rows.json", "w"), indent=1)
print(len(rows), "kept")
for r in rows:
    print(r[0], "|", r[4]["result"], "|", (r[3] or {}).get("own_quick_exit", ""), )
