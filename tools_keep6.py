#!/usr/bin/env python3
"""Keep the round-6 sub-agent changes under /verif/seeded/<prop>-r5<a|b>/ with meta.json (confirmation + detection data)."""
import json, os, re, shutil
MUT = "/tmp/mut6"
conf = json.load(open("/verif/.build/confirm6.json"))
det = {}
for f in ("/verif/.build/detect6_a.json", "/verif/.build/detect6_b.json", "/verif/.build/detect6_c.json"):
    det.update(json.load(open(f)))
after = json.load(open("/verif/.build/after6.json")) if os.path.exists("/verif/.build/after6.json") else {}
notes = json.load(open("/verif/.build/notes6.json")) if os.path.exists("/verif/.build/notes6.json") else {}
rows = []
for pid in ["C%02d" % i for i in range(1, 21)]:
    for v in "ab":
        sid = f"{pid}-{v}"
        d = f"{MUT}/{pid}/DELIVER/{v}"
        if not os.path.exists(d + "/patch.diff") or not conf.get(sid, {}).get("confirmed"):
            continue
        dst = f"/verif/seeded/{pid}-r6{v}"
        os.makedirs(dst, exist_ok=True)
        shutil.copy(d + "/patch.diff", dst + "/patch.diff")
        shutil.copy(d + "/demo_test.go", dst + "/demo_test.go.txt")
        shutil.copy(d + "/README.md", dst + "/README.md")
        patch = open(d + "/patch.diff").read()
        files = sorted(set(re.findall(r"^diff --git a/(\S+)", patch, re.M)))
        c = conf[sid]
        dd = det.get(sid, {})
        own = dd.get("own_quick", {})
        others = dd.get("others_quick", {})
        first = {"machinery": "as of commit b473e51 (after round 5)", "own_quick": own, "others_quick": others}
        if sid in after:
            result = after[sid]
        elif own.get("exit") == 1:
            result = {"check": pid, "tier": "quick", "exit": 1, "result": "caught", "signatures": "; ".join(own.get("signatures", []))}
        elif others:
            result = {"check": pid, "tier": "quick", "exit": own.get("exit"), "result": "not caught by the owning check; caught by " + ", ".join(sorted(others))}
        else:
            result = {"check": pid, "tier": "quick", "exit": own.get("exit"), "result": "MISSED by every quick check"}
        if sid in notes:
            result["note"] = notes[sid]
        meta = {
            "id": f"{pid}-r6{v}", "property": pid,
            "origin": f"sixth round: sub-agent m6-{pid} (given only the property text and a scratch worktree; same brief as round 5: thresholds and boundaries (also heights at multiples of internal intervals, first/latest height, extreme lengths), rounding/arithmetic, long-delayed effects, two cooperating sites)",
            "files_touched": files,
            "what_it_needs_to_manifest": "see README.md (written by the sub-agent)",
            "confirmation": {"demo_placed_at": c.get("demo_dest"), "demo_on_unchanged_tree": c.get("demo_on_clean_tree"), "demo_with_change": c.get("demo_with_mutant"),
                             "go_build": c.get("build_with_mutant"), "unit_tests_with_change (all packages except ./test and the already failing ./ctrlers/gov)": c.get("unit_tests_with_mutant"),
                             "demo_failure_excerpt": c.get("demo_failure_excerpt")},
            "first_detection_run": first,
            "detected_by": result,
            "what_i_ran": "tools_seeded.confirm (demo both ways, build, unit tests) on the sub-agent's worktree; tools_detect3.py: patch applied to a scratch worktree at f78396d (VERIF_REPO), ./check <own> quick, and every other check quick when the own one stayed silent, VERIF_SEED=1",
        }
        json.dump(meta, open(dst + "/meta.json", "w"), indent=1)
        title = ""
        for ln in open(d + "/README.md"):
            if ln.strip().startswith("#"):
                title = ln.strip("# \n"); break
        rows.append((f"{pid}-r6{v}", title, files, result))
json.dump(rows, open("/verif/.build/round6_rows.json", "w"), indent=1)
for r in rows:
    note = r[3].get("note", "")
    sig = r[3].get("signatures", "")
    print(f"| {r[0]} | {r[1]} (`{', '.join(r[2])}`) | {r[3]['check']} quick | {r[3]['result']}{': ' + sig if sig else ''} | {note} |")
