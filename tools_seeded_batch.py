#!/usr/bin/env python3
import json, os, sys, subprocess, concurrent.futures as cf
sys.path.insert(0, '/verif')
import tools_seeded as ts
RES=os.environ.get('SEED_RES','/verif/.build/seeded_results.json')
res=json.load(open(RES)) if os.path.exists(RES) else {}
items=[]
for a in sys.argv[1:]:
    pid,v=a.split('-')
    if os.path.exists(f'{ts.MUT_BASE}/{pid}/DELIVER/{v}/patch.diff'):
        items.append((pid,v))
# phase 1: confirm (parallel over different worktrees; a and b of one worktree sequentially)
by={}
for pid,v in items: by.setdefault(pid,[]).append(v)
def conf(pid):
    out={}
    for v in by[pid]:
        k=f'{pid}-{v}'
        if k in res and 'confirm' in res[k]: continue
        try: out[k]=ts.confirm(pid,v)
        except Exception as e: out[k]={'error':str(e)}
    return out
with cf.ThreadPoolExecutor(int(os.environ.get("SEED_PAR","2"))) as ex:
    for out in ex.map(conf, list(by)):
        for k,c in out.items():
            res.setdefault(k,{})['confirm']=c
            print('CONFIRM',k,c.get('confirmed'),c.get('error',''),flush=True)
            json.dump(res,open(RES,'w'),indent=1)
ALL=['C%02d'%i for i in range(1,21)]
for pid,v in items:
    k=f'{pid}-{v}'
    if not res[k]['confirm'].get('confirmed'): continue
    if 'detect' in res[k]: continue
    det={}
    r=ts.detect(pid,v,[pid],'quick'); det['quick']=r
    hit = any(x.get('exit')==1 for x in r.values() if isinstance(x,dict))
    if not hit:
        r=ts.detect(pid,v,[pid],'thorough'); det['thorough']=r
        hit = any(x.get('exit')==1 for x in r.values() if isinstance(x,dict))
    if not hit:
        others=[c for c in ALL if c!=pid]
        r=ts.detect(pid,v,others,'quick'); det['others_quick']={c:x for c,x in r.items() if isinstance(x,dict) and x.get('exit')!=0}
    res[k]['detect']=det; res[k]['detected_by_own_check']=hit
    print('DETECT',k,'own_check_hit=',hit, json.dumps(det)[:400],flush=True)
    json.dump(res,open(RES,'w'),indent=1)
