#!/bin/bash
# usage: tools_try_patch.sh <patch> [-R] -- <check ids...>
# Applies a patch to /repo, runs the quick checks, restores /repo. Prints one line per check.
P="$1"; shift
REV=""
if [ "$1" = "-R" ]; then REV="-R"; shift; fi
[ "$1" = "--" ] && shift
cd /repo || exit 2
if [ -n "$(git status --porcelain --untracked-files=no)" ]; then echo "repo not clean"; exit 2; fi
git apply $REV "$P" || { echo "patch does not apply"; exit 2; }
trap 'git -C /repo checkout -- . ' EXIT
cd /verif
for id in "$@"; do
  out=$(VERIF_SEED=${VERIF_SEED:-1} ./check $id ${TIER:-quick} 2>&1); rc=$?
  sigs=$(echo "$out" | grep "violation signature" | sed 's/.*violation signature: //' | cut -c1-110 | sort -u | head -4 | tr '\n' ';')
  inc=$(echo "$out" | grep "^INCONCLUSIVE" | head -2 | cut -c1-160 | tr '\n' ';')
  echo "  $id exit=$rc $sigs $inc"
done
