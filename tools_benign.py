#!/usr/bin/env python3
"""False-alarm test: apply a property-preserving variant of the repository to a scratch worktree and run every check on it.
usage: tools_benign.py <patch.diff>...      (env SEED_REPO / SEED_VERIF select the scratch copy; TIER; VERIF_SEED)
A check that exits 1 here is a candidate false alarm (or the variant is not as benign as claimed): look at it by hand."""
import json, os, re, subprocess, sys
REPO = os.environ.get("SEED_REPO", "/tmp/vsand2/repo")
VERIF = os.environ.get("SEED_VERIF", "/tmp/vsand2/verif")
TIER = os.environ.get("TIER", "quick")
CHECKS = os.environ.get("CHECKS", " ".join("C%02d" % i for i in range(1, 21))).split()
def sh(cmd, cwd=None, env=None):
    p = subprocess.run(cmd, shell=True, cwd=cwd, env=env, stdout=subprocess.PIPE, stderr=subprocess.STDOUT)
    return p.returncode, p.stdout.decode(errors="replace")
rows = {}
for patch in sys.argv[1:]:
    rc, out = sh("git status --porcelain --untracked-files=no", cwd=REPO)
    if out.strip():
        print("repo not clean:", REPO); sys.exit(2)
    rc, out = sh(f"git apply {patch}", cwd=REPO)
    if rc != 0:
        print(patch, "PATCH DOES NOT APPLY", out[-200:]); continue
    alarms = {}
    try:
        for cid in CHECKS:
            rc, out = sh(f"./check {cid} {TIER}", cwd=VERIF, env=dict(os.environ, VERIF_SEED=os.environ.get("VERIF_SEED", "1"), VERIF_REPO=REPO))
            if rc != 0:
                sigs = sorted(set(re.findall(r"violation signature: (.*)", out)))
                det = re.findall(r"detail: (.*)", out)[:2]
                alarms[cid] = {"exit": rc, "sigs": [s[:120] for s in sigs[:4]], "detail": [d[:200] for d in det], "tail": out[-300:] if not sigs else ""}
    finally:
        sh("git checkout -- ." + ("" if REPO == "/repo" else " && git clean -fdq"), cwd=REPO)  # new files of a patch are removed in scratch worktrees
    rows[patch] = alarms
    print(patch, "SILENT" if not alarms else "ALARM " + json.dumps(alarms), flush=True)
json.dump(rows, open(os.environ.get("BEN_RES", "/tmp/vsand2/benign_results.json"), "w"), indent=1)
