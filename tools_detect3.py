#!/usr/bin/env python3
"""Fast detection pass for a round of sub-agent mutants: own check quick, then (on a miss) every other check quick.
usage: tools_detect3.py <sandbox-dir> <out.json> C01-a C01-b ...   (env MUT_BASE, default /tmp/mut3)"""
import json, os, re, subprocess, sys
SB, OUT, ids = sys.argv[1], sys.argv[2], sys.argv[3:]
MUT = os.environ.get("MUT_BASE", "/tmp/mut3")
REPO, VERIF = SB + "/repo", SB + "/verif"
def sh(cmd, cwd=None, env=None):
    p = subprocess.run(cmd, shell=True, cwd=cwd, env=env, stdout=subprocess.PIPE, stderr=subprocess.STDOUT)
    return p.returncode, p.stdout.decode(errors="replace")
def run(cid, tier="quick"):
    rc, out = sh(f"./check {cid} {tier}", cwd=VERIF, env=dict(os.environ, VERIF_SEED=os.environ.get("VERIF_SEED", "1"), VERIF_REPO=REPO))
    return {"exit": rc, "signatures": [s[:140] for s in sorted(set(re.findall(r"violation signature: (.*)", out)))[:6]]}
res = json.load(open(OUT)) if os.path.exists(OUT) else {}
ALL = ["C%02d" % i for i in range(1, 21)]
for sid in ids:
    pid, v = sid.split("-")
    sh("git checkout -- . && git clean -fdq", cwd=REPO)
    rc, out = sh(f"git apply {MUT}/{pid}/DELIVER/{v}/patch.diff", cwd=REPO)
    if rc != 0:
        res[sid] = {"error": "patch does not apply: " + out[-200:]}
        print(sid, res[sid], flush=True); continue
    try:
        r = {"own_quick": run(pid)}
        if r["own_quick"]["exit"] != 1:
            r["others_quick"] = {c: x for c in ALL if c != pid for x in [run(c)] if x["exit"] != 0}
    finally:
        sh("git checkout -- . && git clean -fdq", cwd=REPO)
    res[sid] = r
    print(sid, json.dumps(r)[:600], flush=True)
    json.dump(res, open(OUT, "w"), indent=1)
