#!/usr/bin/env python3
"""Confirm sub-agent mutants and run the checks against them.

  tools_seeded.py confirm C04 a      # demo passes clean / fails mutated, unit tests pass with the mutant
  tools_seeded.py detect  C04 a [check ids...]   # apply to /repo, run checks, restore
  tools_seeded.py keep    C04 a      # copy into /verif/seeded/C04-a/
"""
import json, os, re, shutil, subprocess, sys, tempfile

ENV = dict(os.environ, GOFLAGS="-mod=mod", GOPROXY="off", GOSUMDB="off", GOTOOLCHAIN="local", GOMODCACHE="/root/go/pkg/mod", GOCACHE=os.environ.get("GOCACHE", "/root/.cache/go-build"))
REPO = os.environ.get("SEED_REPO", "/repo")      # where patches are applied for detection
VERIF = os.environ.get("SEED_VERIF", "/verif")   # which copy of the machinery runs


def sh(cmd, cwd=None, env=None, timeout=3600):
    p = subprocess.run(cmd, shell=True, cwd=cwd, env=env or ENV, stdout=subprocess.PIPE, stderr=subprocess.STDOUT, timeout=timeout)
    return p.returncode, p.stdout.decode(errors="replace")


MUT_BASE = os.environ.get("MUT_BASE", "/tmp/mut")


def deliver(pid, v):
    return f"{MUT_BASE}/{pid}/DELIVER/{v}"


def demo_info(pid, v):
    src = open(os.path.join(deliver(pid, v), "demo_test.go")).read()
    head = "\n".join(src.splitlines()[:6])
    dest = None
    m = re.search(r"([\w./-]*/verifdemo_\w*_test\.go)", head)
    if m:
        dest = m.group(1)
    else:
        m = re.search(r"in (?:package directory )?([\w./-]+?)/? as (verifdemo_\w*_test\.go)", head)
        if m:
            dest = os.path.join(m.group(1), m.group(2))
    mr = re.search(r"-run\s+['\"]?([\w|^$]+)", head)
    run = mr.group(1) if mr else "VerifDemo"
    mp = re.search(r"\s(\./[\w/.-]+)", head)
    pkg = mp.group(1) if mp else None
    if not dest:
        mf = re.search(r"(verifdemo_\w*_test\.go)", head)
        if mf and pkg:
            dest = os.path.join(pkg.lstrip("./"), mf.group(1))
    if dest and not pkg:
        pkg = "./" + os.path.dirname(dest)
    if dest:
        dest = dest.lstrip("./")
    return dest, run, pkg


def clean(wt):
    sh("git checkout -- . ", cwd=wt)
    sh("find . -name 'verifdemo_*_test.go' -not -path './DELIVER/*' -delete", cwd=wt)
    gm = os.path.join(wt, "DELIVER", "go.mod")
    if not os.path.exists(gm):
        open(gm, "w").write("module deliver\n\ngo 1.19\n")  # keep DELIVER out of ./...


def confirm(pid, v):
    wt = f"{MUT_BASE}/{pid}"
    res = {"id": f"{pid}-{v}"}
    clean(wt)
    dest, run, pkg = demo_info(pid, v)
    res.update(demo_dest=dest, demo_run=run, demo_pkg=pkg)
    if not dest:
        res["error"] = "cannot parse demo placement"
        return res
    tmp = tempfile.mkdtemp(prefix=f"confirm-{pid}{v}-", dir="/tmp")
    os.makedirs(tmp + "/home", exist_ok=True)
    env = dict(ENV, TMPDIR=tmp, HOME=tmp + "/home")
    shutil.copy(os.path.join(deliver(pid, v), "demo_test.go"), os.path.join(wt, dest))
    rc0, out0 = sh(f"go test -vet=off -count=1 -run '{run}' {pkg}", cwd=wt, env=env)
    res["demo_on_clean_tree"] = "pass" if rc0 == 0 else "FAIL"
    rc, out = sh(f"git apply {deliver(pid, v)}/patch.diff", cwd=wt)
    if rc != 0:
        res["error"] = "patch does not apply: " + out[-300:]
        clean(wt)
        return res
    rc1, out1 = sh(f"go test -vet=off -count=1 -run '{run}' {pkg}", cwd=wt, env=env)
    res["demo_with_mutant"] = "fail" if rc1 != 0 else "PASSES"
    res["demo_failure_excerpt"] = "\n".join([l for l in out1.splitlines() if "---" in l or "Error" in l or "panic" in l][:6])
    os.remove(os.path.join(wt, dest))
    rcb, outb = sh("go build ./...", cwd=wt, env=env)
    res["build_with_mutant"] = "ok" if rcb == 0 else "FAIL"
    pk = "$(go list ./... | grep -v '/test$' | grep -v 'ctrlers/gov$')"
    rct, outt = sh(f"go test -vet=off -count=1 {pk}", cwd=wt, env=env)
    failed = [l for l in outt.splitlines() if l.startswith("FAIL") or l.startswith("--- FAIL")]
    if rct != 0:
        # sfeeder tests are flaky (ports, shared temp dirs): retry the failing packages once
        pkgs = sorted(set(l.split()[1] for l in failed if l.startswith("FAIL") and len(l.split()) > 1 and l.split()[1].startswith("github.com")))
        if pkgs:
            rct, outt2 = sh("go test -vet=off -count=1 " + " ".join(pkgs), cwd=wt, env=env)
            failed = [l for l in outt2.splitlines() if l.startswith("FAIL") or l.startswith("--- FAIL")]
    res["unit_tests_with_mutant"] = "pass" if rct == 0 else "FAIL " + "; ".join(failed[:5])
    clean(wt)
    shutil.rmtree(tmp, ignore_errors=True)
    res["confirmed"] = res["demo_on_clean_tree"] == "pass" and res["demo_with_mutant"] == "fail" and res["build_with_mutant"] == "ok" and res["unit_tests_with_mutant"] == "pass"
    return res


def detect(pid, v, checks, tier="quick", seed="1"):
    rc, out = sh("git status --porcelain --untracked-files=no", cwd=REPO)
    if out.strip():
        return {"error": "/repo not clean"}
    rc, out = sh(f"git apply {deliver(pid, v)}/patch.diff", cwd=REPO)
    if rc != 0:
        return {"error": "patch does not apply to /repo: " + out[-300:]}
    results = {}
    try:
        for cid in checks:
            rc, out = sh(f"./check {cid} {tier}", cwd=VERIF, env=dict(os.environ, VERIF_SEED=seed, VERIF_REPO=REPO), timeout=7200)
            sigs = sorted(set(re.findall(r"violation signature: (.*)", out)))
            inc = re.findall(r"^INCONCLUSIVE (.*)", out, re.M)
            results[cid] = {"exit": rc, "signatures": [s[:160] for s in sigs[:6]], "inconclusive": [i[:160] for i in inc[:2]]}
    finally:
        sh("git checkout -- ." + ("" if REPO == "/repo" else " && git clean -fdq"), cwd=REPO)  # new files of a patch are removed in scratch worktrees
    return results


def keep(pid, v, meta, suffix=""):
    d = f"/verif/seeded/{pid}-{suffix}{v}"
    os.makedirs(d, exist_ok=True)
    for f in ("patch.diff", "demo_test.go", "README.md"):
        p = os.path.join(deliver(pid, v), f)
        if os.path.exists(p):
            shutil.copy(p, os.path.join(d, f if f != "demo_test.go" else "demo_test.go.txt"))
    json.dump(meta, open(os.path.join(d, "meta.json"), "w"), indent=1)


if __name__ == "__main__":
    cmd, pid, v = sys.argv[1:4]
    if cmd == "confirm":
        print(json.dumps(confirm(pid, v), indent=1))
    elif cmd == "detect":
        tier = os.environ.get("TIER", "quick")
        print(json.dumps(detect(pid, v, sys.argv[4:] or [pid], tier, os.environ.get("VERIF_SEED", "1")), indent=1))
    elif cmd == "keep":
        keep(pid, v, json.load(sys.stdin))
